#!/usr/bin/env python3
"""Build the simulator worker binary from /repo's current working tree.

Instruments copies of a few repo files (yields before lock sites; statement-level yields in
faults/set.go), adds the overlay export files, and runs `go test -c -overlay`. /repo itself
is never modified.  Usage: buildsim.py <scratch-dir>  -> prints path of the binary.
"""
import json, os, re, subprocess, sys

REPO = os.environ.get("VERIF_REPO", "/repo")
VERIF = os.path.dirname(os.path.abspath(__file__))
GO = "/opt/veriftools/go1.26.8/bin/go"

LOCK_FILES = [
    "actions/notify.go",
    "actions/message-streamer.go",
    "actions/http-push-streamer.go",
    "services/grpc-subscriber.go",
    "services/http-push.go",
]
LOCK_RE = re.compile(r"^(\s*)([A-Za-z_][\w.]*\.(?:R?Lock)\(\))\s*$")


def die(msg):
    print("BUILD-ERROR: " + msg, file=sys.stderr)
    sys.exit(2)


def instrument_locks(src):
    out, n = [], 0
    for line in src.split("\n"):
        m = LOCK_RE.match(line)
        if m:
            out.append(f"{m.group(1)}verifYield(); {m.group(2)}")
            n += 1
        else:
            out.append(line)
    total = len(re.findall(r"\.R?Lock\(\)", src))
    return "\n".join(out), n, total


def env():
    e = dict(os.environ)
    e.update(GOFLAGS="-mod=mod", GOPROXY="off", GOSUMDB="off", GOTOOLCHAIN="local", TZ="UTC", CGO_ENABLED="1")
    e["PATH"] = "/opt/veriftools/go1.26.8/bin:" + e.get("PATH", "")
    return e


def build(scratch):
    ov = os.path.join(scratch, "ov")
    os.makedirs(ov, exist_ok=True)
    replace = {}
    for rel in LOCK_FILES:
        p = os.path.join(REPO, rel)
        if not os.path.exists(p):
            continue  # a refactor may have removed the file; yields are then simply absent
        src = open(p).read()
        new, n, total = instrument_locks(src)
        if n != total:
            die(f"{rel}: {total} lock calls found but {n} instrumented (unrecognised lock idiom)")
        dst = os.path.join(ov, rel.replace("/", "_"))
        open(dst, "w").write(new)
        replace[p] = dst
    # statement-level yields for faults/set.go (go/ast rewriter)
    setgo = os.path.join(REPO, "faults/set.go")
    dst = os.path.join(ov, "faults_set.go")
    r = subprocess.run([GO, "run", "./instrument", setgo, dst], cwd=VERIF + "/sim", env=env(), capture_output=True, text=True)
    if r.returncode != 0:
        die("faults/set.go instrumentation failed:\n" + r.stdout + r.stderr)
    replace[setgo] = dst
    # deterministic select order in the pusher's Receive (optional: falls back to the
    # "one outcome queue at a time" scheduling constraint if the rewrite does not apply)
    push_rewritten = False
    src = os.path.join(REPO, "actions/http-push-streamer.go")
    cur = replace.get(src, src)
    dst2 = os.path.join(ov, "actions_http-push-streamer.sel.go")
    r = subprocess.run([GO, "run", "./instrument", "-pushselect", cur, dst2], cwd=VERIF + "/sim", env=env(), capture_output=True, text=True)
    if r.returncode == 0:
        replace[src] = dst2
        push_rewritten = True
    else:
        print("NOTE: push select rewrite not applied: " + (r.stderr or "")[:200], file=sys.stderr)
    for pkg in ("actions", "services", "faults"):
        replace[os.path.join(REPO, pkg, "zz_verif.go")] = os.path.join(VERIF, "overlay", pkg + "_zz_verif.go")
    ovj = os.path.join(scratch, "overlay.json")
    json.dump({"Replace": replace}, open(ovj, "w"), indent=1)
    out = os.path.join(scratch, "sim.test")
    # optional overlay files reach into private functions; if the tree was refactored and one
    # no longer compiles it is dropped (the op it serves is then skipped), never a build error
    optional = [
        (os.path.join(REPO, "actions", "zz_verif_stream.go"), os.path.join(VERIF, "overlay", "actions_zz_verif_stream.go")),
        (os.path.join(REPO, "actions", "zz_verif_push.go"), os.path.join(VERIF, "overlay", "actions_zz_verif_push.go")),
        (os.path.join(REPO, "services", "zz_verif_push.go"), os.path.join(VERIF, "overlay", "services_zz_verif_push.go")),
    ]

    modfile = []
    if os.path.abspath(REPO) != "/repo":
        # build against another checkout (VERIF_REPO): same module files with the replace redirected
        gm = open(os.path.join(VERIF, "sim", "go.mod")).read().replace("=> /repo", "=> " + os.path.abspath(REPO))
        open(os.path.join(scratch, "go.mod"), "w").write(gm)
        subprocess.run(["cp", os.path.join(VERIF, "sim", "go.sum"), os.path.join(scratch, "go.sum")], check=True)
        modfile = ["-modfile", os.path.join(scratch, "go.mod")]

    def attempt(opts):
        full = dict(replace)
        full.update(dict(opts))
        json.dump({"Replace": full}, open(ovj, "w"), indent=1)
        ld = "-X verif/sim.pushSelectMode=" + ("rewritten" if push_rewritten else "constraint")
        return subprocess.run([GO, "test", "-c"] + modfile + ["-ldflags", ld, "-overlay", ovj, "-o", out, "."], cwd=VERIF + "/sim", env=env(), capture_output=True, text=True)

    r = attempt(optional)
    if r.returncode != 0:
        # drop optional files one at a time, then all of them
        ok = False
        for i in range(len(optional)):
            r2 = attempt(optional[:i] + optional[i + 1:])
            if r2.returncode == 0:
                print("NOTE: optional overlay dropped: " + optional[i][1], file=sys.stderr)
                ok = True
                break
        if not ok:
            r2 = attempt([])
            if r2.returncode != 0:
                die("go test -c failed:\n" + r.stdout + r.stderr)
            print("NOTE: all optional overlays dropped: " + (r.stderr or "")[:300], file=sys.stderr)
    return out


if __name__ == "__main__":
    print(build(sys.argv[1]))
