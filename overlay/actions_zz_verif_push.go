package actions

// Optional overlay file: lengths of the pusher's three outcome queues, read by the simulated
// endpoint to keep Go's randomised select out of the replay (at most one queue non-empty).

func init() {
	VerifPushQueueLens = func(p *HttpPushStreamer) (fast, slow, nack int) {
		return len(p.conn.fastAckQueue), len(p.conn.slowAckQueue), len(p.conn.nackQueue)
	}
}
