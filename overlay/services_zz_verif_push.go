package services

// Optional overlay file: access to the HTTP pusher service for the C19 profile.

import (
	"github.com/google/uuid"

	"go.6river.tech/mmmbbb/actions"
)

func init() {
	VerifHTTPPusher = func() Service {
		for _, s := range defaultServices {
			if p, ok := s.(*httpPusher); ok {
				return p
			}
		}
		return nil
	}
	VerifPusherStreamers = func(s Service) map[uuid.UUID]*actions.HttpPushStreamer {
		p, ok := s.(*httpPusher)
		if !ok {
			return nil
		}
		out := map[uuid.UUID]*actions.HttpPushStreamer{}
		for id, mp := range p.pushers {
			out[id] = mp.HttpPushStreamer
		}
		return out
	}
}
