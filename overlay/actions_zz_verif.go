package actions

// Added to package actions at check-build time through `go test -overlay` (never part of
// /repo): the yield hook used by the lock-site instrumentation, and read access to the
// in-memory waiter registry for the C09 "no waiter notified" oracle.

var VerifYield func()

func verifYield() {
	if f := VerifYield; f != nil {
		f()
	}
}
