package actions

// Added to package actions at check-build time through `go test -overlay` (never part of
// /repo): the yield hook used by the lock-site instrumentation, and read access to the
// in-memory waiter registry for the C09 "no waiter notified" oracle.

import (
	"context"

	"github.com/google/uuid"

	"go.6river.tech/mmmbbb/ent"
)

var VerifYield func()

// VerifPushQueueLens is set by the optional overlay file actions_zz_verif_push.go.
var VerifPushQueueLens func(p *HttpPushStreamer) (fast, slow, nack int)

// VerifStreamAckNack is set by the optional overlay file actions_zz_verif_stream.go.
var VerifStreamAckNack func(ctx context.Context, client *ent.Client, subID uuid.UUID, subName string, ack, nack []uuid.UUID) error

func verifYield() {
	if f := VerifYield; f != nil {
		f()
	}
}

// VerifSelectOrder, if set, returns the order in which the rewritten Receive polls its three
// outcome queues before falling into the original select (see instrument -pushselect).
var VerifSelectOrder func(fast, slow, nack int) []int

func verifSelectOrder(fast, slow, nack int) []int {
	if f := VerifSelectOrder; f != nil {
		return f(fast, slow, nack)
	}
	return nil
}
