package actions

// Optional overlay file (dropped by buildsim.py if it no longer compiles): lets the C09
// enumeration drive the stream ack+nack transaction wrapper directly.

import (
	"context"

	"github.com/google/uuid"

	"go.6river.tech/mmmbbb/ent"
	"go.6river.tech/mmmbbb/logging"
)

func init() {
	VerifStreamAckNack = func(ctx context.Context, client *ent.Client, subID uuid.UUID, subName string, ack, nack []uuid.UUID) error {
		ms := &MessageStreamer{Client: client, Logger: logging.GetLogger("verif/stream-acknack"), SubscriptionID: &subID, SubscriptionName: subName}
		return ms.doAcksNacks(ctx, ack, nack)
	}
}
