package faults

// Added to package faults at check-build time through `go test -overlay`.

var VerifYield func(pos string)

func verifYield(pos string) {
	if f := VerifYield; f != nil {
		f(pos)
	}
}
