package services

// Added to package services at check-build time through `go test -overlay` (never part of
// /repo). Exposes the package-private service list to the simulator and defines the yield
// hook used by the lock-site instrumentation.

import (
	"context"
	"time"

	"github.com/google/uuid"

	"go.6river.tech/mmmbbb/actions"
	"go.6river.tech/mmmbbb/ent"
)

var VerifYield func()

// set by the optional overlay file services_zz_verif_push.go
var VerifHTTPPusher func() Service
var VerifPusherStreamers func(s Service) map[uuid.UUID]*actions.HttpPushStreamer

func verifYield() {
	if f := VerifYield; f != nil {
		f()
	}
}

func VerifDefaultServices() []Service { return defaultServices }

// VerifPruneRunOnce configures one of the seven prune/expire services and runs its real
// runOnce once. ok=false if the service is not a prune service.
func VerifPruneRunOnce(ctx context.Context, s Service, client *ent.Client, minAge time.Duration, maxDelete int) (n int, err error, ok bool) {
	ps, isPS := s.(*pruneService)
	if !isPS {
		return 0, nil, false
	}
	ps.settings = PruneCommonSettings{}
	ps.settings.MinAge = minAge
	ps.settings.MaxDelete = maxDelete
	if err := ps.Initialize(ctx, client); err != nil {
		return 0, err, true
	}
	n, err = ps.runOnce(ctx)
	return n, err, true
}
