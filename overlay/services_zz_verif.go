package services

// Added to package services at check-build time through `go test -overlay` (never part of
// /repo). Exposes the package-private service list to the simulator and defines the yield
// hook used by the lock-site instrumentation.

import (
	"context"
	"time"

	"github.com/google/uuid"

	"go.6river.tech/mmmbbb/actions"
	"go.6river.tech/mmmbbb/ent"
)

var VerifYield func()

// set by the optional overlay file services_zz_verif_push.go
var VerifHTTPPusher func() Service
var VerifPusherStreamers func(s Service) map[uuid.UUID]*actions.HttpPushStreamer

func verifYield() {
	if f := VerifYield; f != nil {
		f()
	}
}

func VerifDefaultServices() []Service { return defaultServices }

// VerifPruneRunOnce runs the real runOnce of one of the seven prune/expire services once.
// Like the production process, an instance is initialised ONCE per (service, settings,
// database client) and then run again and again; a call with the same settings later in the
// run reuses the instance built earlier (a new client, i.e. a simulated restart, starts new
// ones). minAge == 0 is the action's own boundary value: the service layer would replace it by
// its default, so for it the action is built directly from the service's builder.
// ok=false if the service is not a prune service.
func VerifPruneRunOnce(ctx context.Context, s Service, client *ent.Client, minAge time.Duration, maxDelete int) (n int, err error, ok bool) {
	ps, isPS := s.(*pruneService)
	if !isPS {
		return 0, nil, false
	}
	key := verifPruneKey{ps.name, minAge, maxDelete, client}
	inst := verifPruneInstances[key]
	if inst == nil {
		if len(verifPruneInstances) > 4096 {
			verifPruneInstances = map[verifPruneKey]*pruneService{}
		}
		inst = &pruneService{name: ps.name, actionbuilder: ps.actionbuilder}
		inst.settings.MinAge = minAge
		inst.settings.MaxDelete = maxDelete
		if err := inst.Initialize(ctx, client); err != nil {
			return 0, err, true
		}
		if minAge == 0 {
			inst.action = inst.actionbuilder(actions.PruneCommonParams{MinAge: 0, MaxDelete: maxDelete})
		}
		verifPruneInstances[key] = inst
	}
	n, err = inst.runOnce(ctx)
	return n, err, true
}

type verifPruneKey struct {
	name      string
	minAge    time.Duration
	maxDelete int
	client    *ent.Client
}

var verifPruneInstances = map[verifPruneKey]*pruneService{}
