package sim

// Shared machinery of the concurrent profiles: tasks under the cooperative scheduler, the
// tape choosing which parked task runs next.

import (
	"context"
	"time"
)

type ctask struct {
	id     string
	done   bool
	cancel context.CancelFunc
}

type conc struct {
	t     *Tape
	tasks []*ctask
	steps int
	// idle, if set, reports that nothing but spinning background work is left
	idle func() bool
}

func (c *conc) spawn(id string, f func(ctx context.Context)) *ctask {
	tk := &ctask{id: id}
	_, cancel := S.Spawn(context.Background(), id, func(ctx context.Context) {
		f(ctx)
		tk.done = true
	})
	tk.cancel = cancel
	c.tasks = append(c.tasks, tk)
	return tk
}

func (c *conc) allDone() bool {
	for _, t := range c.tasks {
		if !t.done {
			return false
		}
	}
	return true
}

// run lets the tape schedule parked tasks until nothing is parked (quiescence: every task is
// finished or natively blocked) or the step cap is hit. Returns false on the cap.
// after, if not nil, runs after every step (invariants).
func (c *conc) run(max int, after func() *Violation) (*Violation, bool) {
	S.Settle()
	for i := 0; i < max; i++ {
		keys := S.ParkedKeys()
		if len(keys) == 0 {
			return nil, true
		}
		if c.idle != nil && c.idle() {
			// only busy-looping background goroutines are left: treat as quiescent
			return nil, true
		}
		c.t.Frame()
		k := keys[c.t.Intn(len(keys))]
		S.Resume(k)
		c.steps++
		if after != nil {
			if v := after(); v != nil {
				return v, true
			}
		}
	}
	return nil, false
}

// finish cancels what is left, releases everything and turns scheduling off.
func (c *conc) finish() {
	for _, t := range c.tasks {
		t.cancel()
	}
	S.Settle()
	for i := 0; i < 2000; i++ {
		keys := S.ParkedKeys()
		if len(keys) == 0 {
			break
		}
		S.Resume(keys[0])
	}
	S.ReleaseAll()
	S.Settle()
	time.Sleep(time.Millisecond)
	S.Settle()
}
