package sim

// hist: sequential client histories with faults, checked operation by operation against the
// reference model, ending in a drain phase (DESIGN.md section 5, C01-C06, C13, C14, C15).

import (
	"context"
	"database/sql"
	"fmt"
	"math/rand"
	"sort"
	"strings"
	"testing"
	"time"

	"github.com/google/uuid"
	"google.golang.org/grpc/codes"
	"google.golang.org/grpc/status"
	"google.golang.org/protobuf/proto"
	"google.golang.org/protobuf/types/known/durationpb"
	"google.golang.org/protobuf/types/known/fieldmaskpb"
	"google.golang.org/protobuf/types/known/timestamppb"

	"go.6river.tech/mmmbbb/actions"
	"go.6river.tech/mmmbbb/faults"
	"go.6river.tech/mmmbbb/grpc/pubsubpb"
	"go.6river.tech/mmmbbb/services"
)

type Run struct {
	T       *Tape
	W       *World
	M       *Model
	Sim     *Sim
	Variant string
	Trace   []string // decoded events (human readable)
	CTrace  []string // client-visible trace (paired-run oracle)
	ackPool []string
	Stats   map[string]int
	Hashes  map[uint64]bool
	// swarm
	faultsOn     bool
	jobsOn       bool
	skipJobs     bool            // paired run: job frames are consumed but not executed
	jobDur       []time.Duration // recorded virtual duration per job frame
	jobIdx       int
	opWeights    []int
	noCycle      bool
	fixedSteps   int
	stepsDone    int
	bigPull      bool
	noSeek       bool
	maxMinAge    time.Duration
	nTopics      int
	nSubs        int
	pendingFault string
	virtualStart time.Time
	header       int
	hintWaitSub  string // wake profile: canned scenarios bias the first waiter / writer
	hintWriter   int
}

func (r *Run) ev(f string, a ...any) {
	r.Trace = append(r.Trace, fmt.Sprintf("%12.6f ", time.Since(epoch).Seconds())+fmt.Sprintf(f, a...))
}
func (r *Run) cev(f string, a ...any) { r.CTrace = append(r.CTrace, fmt.Sprintf(f, a...)) }
func (r *Run) stat(k string)          { r.Stats[k]++ }

func topicName(i int) string { return fmt.Sprintf("projects/p/topics/t%d", i) }
func subName(i int) string   { return fmt.Sprintf("projects/p/subscriptions/s%d", i) }
func snapName(i int) string  { return fmt.Sprintf("projects/p/snapshots/n%d", i) }

const (
	opCreateTopic = iota
	opDeleteTopic
	opCreateSub
	opDeleteSub
	opUpdateSub
	opPublish
	opPull
	opAck
	opModAck
	opSeekTime
	opSnapshot
	opSeekSnap
	opAdvance
	opJob
	opDLSweep
	opExpirySweep
	opSetDelay
	opFault
	opRestart
	opDeleteSnap
	opPullAck
	opChase
	opNack
	opWaitCancel
	opSnapCombo
	opWaitDelete
	opWaitExpire
	opSweepChase
	opWaitUpdate
	opWaitDLUpdate
	nOps
)

var opNames = [...]string{"createTopic", "deleteTopic", "createSub", "deleteSub", "updateSub", "publish", "pull", "ack", "modack", "seekTime", "snapshot", "seekSnap", "advance", "job", "dlSweep", "expirySweep", "setDelay", "fault", "restart", "deleteSnap", "pullAck", "chase", "nack", "waitCancel", "snapCombo", "waitDelete", "waitExpire", "sweepChase", "waitUpdate", "waitDLUpdate"}

func baseWeights() []int {
	w := make([]int, nOps)
	w[opCreateTopic] = 2
	w[opDeleteTopic] = 1
	w[opCreateSub] = 4
	w[opDeleteSub] = 1
	w[opUpdateSub] = 2
	w[opPublish] = 16
	w[opPull] = 16
	w[opAck] = 8
	w[opModAck] = 5
	w[opSeekTime] = 2
	w[opSnapshot] = 2
	w[opSeekSnap] = 2
	w[opAdvance] = 14
	w[opJob] = 3
	w[opDLSweep] = 2
	w[opExpirySweep] = 1
	w[opSetDelay] = 1
	w[opFault] = 0
	w[opRestart] = 0
	w[opDeleteSnap] = 1
	w[opPullAck] = 6
	w[opChase] = 0
	w[opNack] = 3
	w[opWaitCancel] = 1
	w[opSnapCombo] = 1
	w[opWaitDelete] = 1
	w[opWaitExpire] = 1
	return w
}

func (r *Run) configure() {
	t := r.T
	t.Frame()
	ticks := []time.Duration{100 * time.Nanosecond, time.Microsecond, 10 * time.Microsecond, 137 * time.Microsecond}
	r.Sim.tick = ticks[t.Intn(len(ticks))]
	r.nTopics = 1 + t.Intn(4)
	r.nSubs = 1 + t.Intn(6)
	r.faultsOn = t.Bool(40)
	r.jobsOn = t.Bool(60)
	r.bigPull = t.Bool(50)
	w := baseWeights()
	// swarm: switch some op kinds off
	for _, k := range []int{opDeleteTopic, opDeleteSub, opUpdateSub, opModAck, opSeekTime, opSnapshot, opSeekSnap, opDLSweep, opExpirySweep, opSetDelay, opDeleteSnap} {
		if t.Bool(30) {
			w[k] = 0
		}
	}
	switch r.Variant {
	case "ack":
		w[opAck] *= 3
		w[opPullAck] *= 2
		w[opModAck] *= 2
	case "retry":
		w[opSnapCombo] = 0
		w[opChase] = 5
		w[opPublish] /= 2
		w[opAdvance] *= 2
		w[opPull] *= 2
		w[opModAck] *= 2
		w[opSeekTime], w[opSeekSnap] = 0, 0
	case "order":
		w[opPublish] *= 2
		w[opAck] *= 2
	case "dl":
		if t.Bool(60) {
			// no seeks in this run: dead-letter cycles and chains are allowed (see noCycle)
			w[opSeekTime], w[opSeekSnap], w[opSnapshot], w[opSnapCombo] = 0, 0, 0, 0
		}
		w[opNack] = 8
		w[opSweepChase] = 4
		w[opWaitDLUpdate] = 4
		w[opDLSweep] = 6
		w[opAdvance] *= 2
		w[opPull] *= 2
	case "seek":
		w[opSnapCombo] = 5
		w[opSeekTime] = 8
		w[opSnapshot] = 6
		w[opSeekSnap] = 8
		w[opAck] *= 2
	case "snap":
		// snapshots taken and sought while background pruning removes completed rows
		r.jobsOn = true
		w[opSnapCombo] = 5
		w[opJob] = 8
		w[opSnapshot] = 8
		w[opSeekSnap] = 10
		w[opAck] *= 3
		w[opPullAck] *= 2
	case "time":
		w[opWaitCancel] = 6
		w[opWaitDelete] = 3
		w[opWaitExpire] = 12
		w[opWaitUpdate] = 5
		w[opAdvance] *= 2
		w[opExpirySweep] = 5
		w[opSetDelay] = 3
		w[opUpdateSub] = 4
	case "prune":
		r.jobsOn = true
		w[opJob] = 14
		r.bigPull = true
		r.noSeek = true
		w[opSeekTime], w[opSeekSnap], w[opSnapshot], w[opDeleteSnap], w[opSnapCombo] = 0, 0, 0, 0, 0
		r.faultsOn = false
		w[opExpirySweep] = 0 // sweeps have client-visible effects by design; not spliced
		w[opDLSweep] = 0
	}
	if !r.jobsOn {
		w[opJob] = 0
	}
	// Several rows of one message on one subscription (dead-letter cycles, chains, two sources
	// into one target) make "which row is this ack id" a guess; combined with seeks, which
	// treat rows by their individual creation time and snapshot membership, the oracle would
	// be guessing most of the time. A run therefore has either seeks or such topologies.
	r.noCycle = w[opSeekTime]+w[opSeekSnap]+w[opSnapshot]+w[opSnapCombo] > 0
	if r.faultsOn {
		w[opFault] = 6
		w[opRestart] = 1
	}
	r.opWeights = w
}

// ---- generators ---------------------------------------------------------------------------

var durPalette = []time.Duration{time.Millisecond, 50 * time.Millisecond, 700 * time.Millisecond, 3 * time.Second, 10 * time.Second, 45 * time.Second, 5 * time.Minute, 30 * time.Minute, 2 * time.Hour}

func (r *Run) genCfg(forceOrdered, forceDL int) (SubCfg, *pubsubpb.Subscription) {
	t := r.T
	cfg := SubCfg{}
	req := &pubsubpb.Subscription{}
	// filter
	if t.Bool(35) {
		f := filterPalette[t.Intn(len(filterPalette))]
		cfg.Filter = f.Text
		req.Filter = f.Text
	}
	ordP := 30
	if r.Variant == "order" {
		ordP = 85
	}
	if t.Bool(ordP) {
		cfg.Ordered = true
		req.EnableMessageOrdering = true
	}
	// retry policy
	switch t.Intn(5) {
	case 0:
	case 1:
		cfg.MinB = durPalette[t.Intn(len(durPalette))]
		req.RetryPolicy = &pubsubpb.RetryPolicy{MinimumBackoff: durationpb.New(cfg.MinB)}
	case 2:
		cfg.MaxB = durPalette[t.Intn(len(durPalette))]
		req.RetryPolicy = &pubsubpb.RetryPolicy{MaximumBackoff: durationpb.New(cfg.MaxB)}
	default:
		cfg.MinB = durPalette[t.Intn(len(durPalette))]
		cfg.MaxB = durPalette[t.Intn(len(durPalette))]
		req.RetryPolicy = &pubsubpb.RetryPolicy{MinimumBackoff: durationpb.New(cfg.MinB), MaximumBackoff: durationpb.New(cfg.MaxB)}
	}
	// dead letter
	dlP := 25
	if r.Variant == "dl" {
		dlP = 80
	}
	if r.Variant == "wake" {
		dlP = 45
	}
	if t.Bool(dlP) {
		dt := r.M.LiveTopic(topicName(t.Intn(r.nTopics)))
		n := int32(1 + t.Intn(6))
		if r.Variant == "wake" && n > 2 {
			n -= 2 + n%2*0 - 0
			if n > 2 {
				n = 1
			}
		}
		if dt != nil {
			cfg.DLTopic = dt
			cfg.MaxAttempts = n
			req.DeadLetterPolicy = &pubsubpb.DeadLetterPolicy{DeadLetterTopic: dt.Name, MaxDeliveryAttempts: n}
			if t.Bool(15) {
				req.DeadLetterPolicy.MaxDeliveryAttempts = 0 // documented default 5
				cfg.MaxAttempts = 5
			}
		}
	}
	// retention
	rets := []time.Duration{time.Minute, 10 * time.Minute, time.Hour, 24 * time.Hour, 7 * 24 * time.Hour}
	cfg.Retention = 7 * 24 * time.Hour
	if t.Bool(50) {
		cfg.Retention = rets[t.Intn(len(rets))]
		req.MessageRetentionDuration = durationpb.New(cfg.Retention)
	}
	ttls := []time.Duration{10 * time.Minute, time.Hour, 24 * time.Hour, 30 * 24 * time.Hour}
	cfg.TTL = 30 * 24 * time.Hour
	if t.Bool(40) {
		cfg.TTL = ttls[t.Intn(len(ttls))]
		req.ExpirationPolicy = &pubsubpb.ExpirationPolicy{Ttl: durationpb.New(cfg.TTL)}
	}
	return cfg, req
}

var padPalette = []string{"", " ", "héllo wörld ☃", "<b>&amp;\"'</b>", "\\u0041\\n\\t", "emoji 😀"}

func (r *Run) genPayload(seq int) []byte {
	t := r.T
	pad := padPalette[t.Intn(len(padPalette))]
	switch t.Intn(9) {
	case 0:
		return []byte(fmt.Sprintf(`{"n":%d}`, seq))
	case 1:
		return []byte(fmt.Sprintf("{ \"n\" : %d ,\n\t\"pad\" : %q }", seq, pad))
	case 2:
		return []byte(fmt.Sprintf(`{"n":%d,"big":12345678901234567890123,"exp":1.5e300,"neg":-0.000001,"z":1.0}`, seq))
	case 3:
		return []byte(fmt.Sprintf(`{"n":%d,"nest":{"a":[1,2,{"b":null}],"t":true,"f":false},"s":%q}`, seq, pad))
	case 4:
		return []byte(fmt.Sprintf(`[%d,"%s",[],{}]`, seq, strings.ReplaceAll(pad, `"`, "")))
	case 5:
		return []byte(fmt.Sprintf(`%d`, seq))
	case 6:
		return []byte(fmt.Sprintf(`"s%d <&> %s"`, seq, strings.NewReplacer(`"`, "", `\`, "").Replace(pad)))
	case 7:
		return []byte(fmt.Sprintf(`{"n":%d,"pad":"%s"}`, seq, strings.Repeat("x", 1+t.Intn(2000))))
	default:
		return []byte(fmt.Sprintf(`{"n":%d,"u":"é☃","h":"<script>&"}`, seq))
	}
}

func (r *Run) genAttrs() map[string]string {
	t := r.T
	a := map[string]string{}
	kinds := []string{"", "a", "ab", "b"}
	if k := t.Intn(6); k < 4 {
		a["kind"] = kinds[k]
	}
	if x := t.Intn(4); x == 1 {
		a["x"] = "1"
	} else if x == 2 {
		a["x"] = "2"
	}
	if t.Bool(15) {
		a["ключ ☃"] = "значение <&>"
	}
	if t.Bool(10) {
		a["empty"] = ""
	}
	if len(a) == 0 && t.Bool(50) {
		return nil
	}
	return a
}

var keyPalette = []string{"", "", "K1", "K2", "K3", "k 4 ☃"}

// ---- operations ---------------------------------------------------------------------------

type opResult struct {
	err    error
	t0, t1 time.Time
	fired  bool // an injected fault fired during the op
}

// do runs a unary call with whatever fault is pending.
func (r *Run) do(method string, req proto.Message) (proto.Message, opResult) {
	ctx, cancel := context.WithCancel(context.Background())
	defer cancel()
	res := opResult{}
	pf := r.pendingFault
	r.pendingFault = ""
	switch {
	case pf == "grpc":
		r.W.Faults.Add(faults.Description{Operation: method, Count: 1, OnFault: func(faults.Description, faults.Parameters) error {
			return status.Error(codes.Unavailable, "injected grpc fault")
		}})
		r.stat("armed_grpc_fault")
	case strings.HasPrefix(pf, "sql:"):
		var kind, k int
		fmt.Sscanf(pf, "sql:%d:%d", &kind, &k)
		r.Sim.stallFor = time.Duration(k) * 7 * time.Second
		r.Sim.Arm(FaultKind(kind), k, cancel)
		r.stat("armed_" + FaultKind(kind).String())
	}
	if method == "Pull" {
		r.nudge(5 * time.Millisecond)
	}
	res.t0 = time.Now()
	resp, err := r.W.Call(ctx, method, req)
	res.t1 = time.Now()
	res.err = err
	if strings.HasPrefix(pf, "sql:") {
		_, fired := r.Sim.Disarm()
		res.fired = fired
		if fired {
			r.stat("fault_fired_in_op")
		}
	}
	if pf == "grpc" {
		res.fired = code(err) == codes.Unavailable
		// drop an unused fault so it cannot leak into a later op
		if !res.fired {
			for r.W.Faults.Check(method, nil) != nil {
			}
		}
	}
	if r.Sim.connLost {
		// connection loss leads to a process restart before anything else happens
		if rerr := r.W.Restart(); rerr != nil {
			panic("HARNESS: restart failed: " + rerr.Error())
		}
		r.stat("crash_restart")
		r.ev("  (crash + restart)")
	}
	return resp, res
}

func isPanic(err error) (*PanicError, bool) {
	p, ok := err.(*PanicError)
	return p, ok
}

// expectCode checks a status code against the model's expectation unless a fault fired.
func (r *Run) expectCode(prop, what string, res opResult, want codes.Code) *Violation {
	if p, ok := isPanic(res.err); ok {
		return viol("C16", "panic", "%s panicked through the production interceptor chain: %v", what, p.Val)
	}
	got := code(res.err)
	if res.fired && got != codes.OK {
		return nil
	}
	if got != want {
		return viol(prop, "status", "%s returned %v (%v), expected %v", what, got, res.err, want)
	}
	return nil
}

func (r *Run) step() *Violation {
	t := r.T
	t.Frame()
	r.Sim.StepBegin()
	op := t.Pick(r.opWeights)
	switch op {
	case opCreateTopic:
		return r.doCreateTopic(t.Intn(r.nTopics))
	case opDeleteTopic:
		return r.doDeleteTopic(t.Intn(r.nTopics))
	case opCreateSub:
		return r.doCreateSub(t.Intn(r.nSubs), t.Intn(r.nTopics))
	case opDeleteSub:
		return r.doDeleteSub(t.Intn(r.nSubs))
	case opUpdateSub:
		return r.doUpdateSub(t.Intn(r.nSubs))
	case opPublish:
		return r.doPublish(t.Intn(r.nTopics))
	case opPull:
		return r.doPull(t.Intn(r.nSubs), false)
	case opPullAck:
		return r.doPull(t.Intn(r.nSubs), true)
	case opAck:
		return r.doAck()
	case opModAck:
		return r.doModAck()
	case opSeekTime:
		return r.doSeekTime(t.Intn(r.nSubs))
	case opSnapshot:
		return r.doSnapshot(t.Intn(3), t.Intn(r.nSubs))
	case opSeekSnap:
		return r.doSeekSnap(t.Intn(r.nSubs), t.Intn(3))
	case opDeleteSnap:
		return r.doDeleteSnap(t.Intn(3))
	case opAdvance:
		return r.doAdvance()
	case opJob:
		return r.doJob()
	case opDLSweep:
		return r.doDLSweep()
	case opExpirySweep:
		return r.doExpirySweep(1000)
	case opSetDelay:
		return r.doSetDelay(t.Intn(r.nSubs))
	case opChase:
		return r.doChase()
	case opNack:
		return r.doNack()
	case opWaitCancel:
		return r.doWaitCancel(t.Intn(r.nSubs))
	case opSnapCombo:
		return r.doSnapCombo(t.Intn(r.nSubs))
	case opWaitDelete:
		return r.doWaitDelete(t.Intn(r.nSubs))
	case opWaitExpire:
		return r.doWaitExpire(t.Intn(r.nSubs))
	case opSweepChase:
		return r.doSweepChase()
	case opWaitUpdate:
		return r.doWaitUpdate(t.Intn(r.nSubs))
	case opWaitDLUpdate:
		return r.doWaitDLUpdate(t.Intn(r.nSubs))
	case opFault:
		if r.Variant == "order" && t.Bool(50) {
			// a storage fault inside a publish (the predecessor lookup is one of its statements)
			kind := []FaultKind{FaultStmtErr, FaultStmtErr, FaultCommitErr, FaultCancelAfter}[t.Intn(4)]
			r.pendingFault = fmt.Sprintf("sql:%d:%d", kind, 1+t.Intn(12))
			r.ev("arm fault %s for the publish that follows", r.pendingFault)
			r.stat("armed_" + kind.String())
			r.stat("fault_aimed_at_publish")
			return r.doPublish(t.Intn(r.nTopics))
		}
		if r.Variant == "ack" && t.Bool(50) {
			// a storage fault placed inside an acknowledgement (early driver events, so that
			// it fires), the most interesting place for "acknowledged means acknowledged"
			kind := []FaultKind{FaultCommitErr, FaultCommitErr, FaultStmtErr, FaultConnLoss, FaultCancel}[t.Intn(5)]
			r.pendingFault = fmt.Sprintf("sql:%d:%d", kind, 1+t.Intn(4))
			r.ev("arm fault %s for the acknowledgement that follows", r.pendingFault)
			r.stat("armed_" + kind.String())
			r.stat("fault_aimed_at_ack")
			return r.doAck()
		}
		r.doArmFault()
		return nil
	case opRestart:
		r.ev("restart")
		if err := r.W.Restart(); err != nil {
			panic("HARNESS: restart: " + err.Error())
		}
		r.stat("crash_restart")
		return nil
	}
	return nil
}

func (r *Run) doArmFault() {
	t := r.T
	switch t.Intn(7) {
	case 6:
		// the client gives up right after a statement has executed; the transaction watcher
		// rolls back before the handler continues (often: between the last statement and commit)
		r.pendingFault = fmt.Sprintf("sql:%d:%d", FaultCancelAfter, 1+t.Intn(14))
	case 0:
		r.pendingFault = "grpc"
	case 1:
		r.pendingFault = fmt.Sprintf("sql:%d:%d", FaultStmtErr, 1+t.Intn(14))
	case 2:
		r.pendingFault = fmt.Sprintf("sql:%d:%d", FaultCommitErr, 1+t.Intn(14))
	case 3:
		r.pendingFault = fmt.Sprintf("sql:%d:%d", FaultCancel, 1+t.Intn(14))
	case 4:
		r.pendingFault = fmt.Sprintf("sql:%d:%d", FaultConnLoss, 1+t.Intn(14))
	case 5:
		r.pendingFault = fmt.Sprintf("sql:%d:%d", FaultStall, 1+t.Intn(10))
	}
	r.ev("arm fault %s for next client op", r.pendingFault)
}

func (r *Run) doCreateTopic(i int) *Violation {
	name := topicName(i)
	var labels map[string]string
	if r.T.Bool(30) {
		labels = map[string]string{"l": fmt.Sprint(r.T.Intn(3))}
	}
	_, res := r.do("CreateTopic", &pubsubpb.Topic{Name: name, Labels: labels})
	r.ev("CreateTopic %s -> %v", name, code(res.err))
	r.cev("CreateTopic %s %v", name, code(res.err))
	want := codes.OK
	if r.M.LiveTopic(name) != nil {
		want = codes.AlreadyExists
	}
	if v := r.expectCode("C12", "CreateTopic "+name, res, want); v != nil {
		return v
	}
	if res.err == nil {
		r.M.CreateTopic(name, labels)
	}
	return nil
}

func (r *Run) doDeleteTopic(i int) *Violation {
	name := topicName(i)
	_, res := r.do("DeleteTopic", &pubsubpb.DeleteTopicRequest{Topic: name})
	r.ev("DeleteTopic %s -> %v", name, code(res.err))
	r.cev("DeleteTopic %s %v", name, code(res.err))
	want := codes.OK
	mt := r.M.LiveTopic(name)
	if mt == nil {
		want = codes.NotFound
	}
	if v := r.expectCode("C12", "DeleteTopic "+name, res, want); v != nil {
		return v
	}
	if res.err == nil {
		r.M.DeleteTopic(mt)
	}
	return nil
}

func (r *Run) doCreateSub(i, ti int) *Violation {
	name := subName(i)
	tn := topicName(ti)
	cfg, req := r.genCfg(0, 0)
	req.Name = name
	req.Topic = tn
	if r.noCycle && cfg.DLTopic != nil && !r.dlAllowed(name, tn, cfg.DLTopic) {
		// redirect the policy to the sink topic if that is allowed, else drop it
		if sk := r.M.LiveTopic(topicName(r.nTopics - 1)); sk != nil && r.dlAllowed(name, tn, sk) {
			cfg.DLTopic = sk
			req.DeadLetterPolicy.DeadLetterTopic = sk.Name
		} else {
			cfg.DLTopic, cfg.MaxAttempts, req.DeadLetterPolicy = nil, 0, nil
		}
	}
	if r.T.Bool(20) {
		req.Labels = map[string]string{"k": "v"}
		cfg.Labels = req.Labels
	}
	_, res := r.do("CreateSubscription", req)
	r.ev("CreateSubscription %s on %s filter=%q ordered=%v retry=%v/%v dl=%v/%d ret=%v ttl=%v -> %v", name, tn, cfg.Filter, cfg.Ordered, cfg.MinB, cfg.MaxB, cfg.DLTopic != nil, cfg.MaxAttempts, cfg.Retention, cfg.TTL, code(res.err))
	r.cev("CreateSubscription %s %v", name, code(res.err))
	want := codes.OK
	mt := r.M.LiveTopic(tn)
	if r.M.LiveSub(name) != nil {
		want = codes.AlreadyExists
	} else if mt == nil {
		want = codes.NotFound
	}
	if v := r.expectCode("C12", "CreateSubscription "+name, res, want); v != nil {
		return v
	}
	if res.err == nil {
		r.M.CreateSub(name, mt, cfg, res.t0, res.t1)
	}
	return nil
}

func (r *Run) doDeleteSub(i int) *Violation {
	name := subName(i)
	_, res := r.do("DeleteSubscription", &pubsubpb.DeleteSubscriptionRequest{Subscription: name})
	r.ev("DeleteSubscription %s -> %v", name, code(res.err))
	r.cev("DeleteSubscription %s %v", name, code(res.err))
	want := codes.OK
	ms := r.M.LiveSub(name)
	if ms == nil {
		want = codes.NotFound
	}
	if v := r.expectCode("C12", "DeleteSubscription "+name, res, want); v != nil {
		return v
	}
	if res.err == nil {
		r.M.DeleteSub(ms)
	}
	return nil
}

func (r *Run) doUpdateSub(i int) *Violation {
	t := r.T
	name := subName(i)
	ms := r.M.LiveSub(name)
	cfg := SubCfg{}
	if ms != nil {
		cfg = ms.Cfg
	}
	req := &pubsubpb.Subscription{Name: name}
	var paths []string
	wantCode := codes.OK
	ms0TopicName := ""
	if ms != nil {
		ms0TopicName = ms.Topic.Name
	}
	kinds := []int{0, 1, 2, 3, 4}
	if r.Variant == "time" {
		kinds = []int{1, 2, 1, 2, 0}
	}
	switch kinds[t.Intn(len(kinds))] {
	case 0: // retry policy
		paths = append(paths, "retry_policy")
		switch t.Intn(4) {
		case 0:
			cfg.MinB, cfg.MaxB = 0, 0
		case 1:
			cfg.MinB, cfg.MaxB = durPalette[t.Intn(len(durPalette))], 0
			req.RetryPolicy = &pubsubpb.RetryPolicy{MinimumBackoff: durationpb.New(cfg.MinB)}
		case 2:
			cfg.MinB, cfg.MaxB = 0, durPalette[t.Intn(len(durPalette))]
			req.RetryPolicy = &pubsubpb.RetryPolicy{MaximumBackoff: durationpb.New(cfg.MaxB)}
		default:
			cfg.MinB, cfg.MaxB = durPalette[t.Intn(len(durPalette))], durPalette[t.Intn(len(durPalette))]
			req.RetryPolicy = &pubsubpb.RetryPolicy{MinimumBackoff: durationpb.New(cfg.MinB), MaximumBackoff: durationpb.New(cfg.MaxB)}
		}
	case 1: // retention
		paths = append(paths, "message_retention_duration")
		rets := []time.Duration{time.Minute, 10 * time.Minute, time.Hour, 24 * time.Hour}
		cfg.Retention = rets[t.Intn(len(rets))]
		req.MessageRetentionDuration = durationpb.New(cfg.Retention)
	case 2: // ttl
		paths = append(paths, "expiration_policy")
		ttls := []time.Duration{10 * time.Minute, time.Hour, 24 * time.Hour}
		cfg.TTL = ttls[t.Intn(len(ttls))]
		req.ExpirationPolicy = &pubsubpb.ExpirationPolicy{Ttl: durationpb.New(cfg.TTL)}
	case 3: // dead letter policy
		paths = append(paths, "dead_letter_policy")
		if t.Bool(30) {
			cfg.DLTopic, cfg.MaxAttempts = nil, 0
		} else {
			dn := topicName(t.Intn(r.nTopics))
			n := int32(1 + t.Intn(6))
			dt := r.M.LiveTopic(dn)
			if r.noCycle && dt != nil && !r.dlAllowed(name, ms0TopicName, dt) {
				if sk := r.M.LiveTopic(topicName(r.nTopics - 1)); sk != nil && r.dlAllowed(name, ms0TopicName, sk) {
					dt, dn = sk, sk.Name
				}
			}
			if r.noCycle && dt != nil && !r.dlAllowed(name, ms0TopicName, dt) {
				cfg.DLTopic, cfg.MaxAttempts = nil, 0 // (clears the policy instead)
			} else {
				req.DeadLetterPolicy = &pubsubpb.DeadLetterPolicy{DeadLetterTopic: dn, MaxDeliveryAttempts: n}
				if dt != nil {
					cfg.DLTopic, cfg.MaxAttempts = dt, n
				} else {
					wantCode = codes.NotFound
				}
			}
		}
	case 4: // filter (applies to future messages only)
		paths = append(paths, "filter")
		f := filterPalette[t.Intn(len(filterPalette))]
		cfg.Filter = f.Text
		req.Filter = f.Text
	}
	if ms == nil {
		wantCode = codes.NotFound
	}
	_, res := r.do("UpdateSubscription", &pubsubpb.UpdateSubscriptionRequest{Subscription: req, UpdateMask: &fieldmaskpb.FieldMask{Paths: paths}})
	r.ev("UpdateSubscription %s %v -> %v", name, paths, code(res.err))
	r.cev("UpdateSubscription %s %v", name, code(res.err))
	if v := r.expectCode("C17", "UpdateSubscription "+name, res, wantCode); v != nil {
		return v
	}
	if res.err == nil && ms != nil {
		ttlChanged := cfg.TTL != ms.Cfg.TTL || (len(paths) > 0 && paths[0] == "expiration_policy")
		ms.Cfg = cfg
		r.M.ConfigChanged(ms)
		if ttlChanged {
			ms.ActLo, ms.ActHi = res.t0, res.t1
		}
	}
	return nil
}

func (r *Run) doPublish(ti int) *Violation {
	t := r.T
	name := topicName(ti)
	n := 1
	if t.Bool(40) {
		n = 1 + t.Intn(5)
	}
	req := &pubsubpb.PublishRequest{Topic: name}
	type pm struct {
		data  []byte
		attrs map[string]string
		key   string
	}
	var pms []pm
	for i := 0; i < n; i++ {
		p := pm{data: r.genPayload(r.M.msgSeq + 1 + i), attrs: r.genAttrs(), key: keyPalette[t.Intn(len(keyPalette))]}
		pms = append(pms, p)
		req.Messages = append(req.Messages, &pubsubpb.PubsubMessage{Data: p.data, Attributes: p.attrs, OrderingKey: p.key})
	}
	resp, res := r.do("Publish", req)
	r.ev("Publish %s x%d -> %v", name, n, code(res.err))
	want := codes.OK
	mt := r.M.LiveTopic(name)
	if mt == nil {
		want = codes.NotFound
	}
	if v := r.expectCode("C12", "Publish "+name, res, want); v != nil {
		return v
	}
	r.cev("Publish %s x%d %v", name, n, code(res.err))
	if res.err != nil {
		return nil
	}
	ids := resp.(*pubsubpb.PublishResponse).MessageIds
	if len(ids) != n {
		return viol("C01", "publish_ids", "Publish of %d messages returned %d ids", n, len(ids))
	}
	// messages of one request are stamped in request order inside [t0,t1]; give each a
	// sub-interval order by spreading (the model only needs order + enclosing interval)
	for i, id := range ids {
		if _, dup := r.M.Msgs[id]; dup {
			return viol("C02", "duplicate_message_id", "Publish returned id %s twice", id)
		}
		m := r.M.Publish(mt, id, pms[i].data, pms[i].attrs, pms[i].key, res.t0, res.t1)
		r.ev("   msg %d id=%s key=%q attrs=%v data=%.40q", m.Seq, id, m.Key, m.Attrs, m.Data)
	}
	return nil
}

func (r *Run) pullMax() int32 {
	t := r.T
	if r.bigPull || t.Bool(60) {
		return 1000
	}
	return []int32{1, 2, 3, 5, 10}[t.Intn(5)]
}

func toRecv(ms []*pubsubpb.ReceivedMessage) []RecvMsg {
	out := make([]RecvMsg, 0, len(ms))
	for _, rm := range ms {
		x := RecvMsg{AckID: rm.AckId, Attempt: int(rm.DeliveryAttempt)}
		if rm.Message != nil {
			x.MsgID = rm.Message.MessageId
			x.Data = rm.Message.Data
			x.Attrs = rm.Message.Attributes
			x.Key = rm.Message.OrderingKey
			x.PubTime = rm.Message.PublishTime.AsTime()
		}
		out = append(out, x)
	}
	return out
}

func (r *Run) doPull(i int, thenAck bool) *Violation {
	t := r.T
	name := subName(i)
	max := r.pullMax()
	immediate := !t.Bool(5)
	resp, res := r.do("Pull", &pubsubpb.PullRequest{Subscription: name, MaxMessages: max, ReturnImmediately: immediate})
	ms := r.M.LiveSub(name)
	want := codes.OK
	if ms == nil {
		want = codes.NotFound
	}
	if v := r.expectCode("C12", "Pull "+name, res, want); v != nil {
		r.ev("Pull %s max=%d -> %v", name, max, code(res.err))
		return v
	}
	if res.err != nil {
		r.ev("Pull %s max=%d -> %v", name, max, code(res.err))
		r.cev("Pull %s %v", name, code(res.err))
		if ms != nil {
			r.M.PullFailed(ms, res.t1)
		}
		return nil
	}
	recv := toRecv(resp.(*pubsubpb.PullResponse).ReceivedMessages)
	var desc []string
	for _, x := range recv {
		seq := -1
		if m := r.M.Msgs[x.MsgID]; m != nil {
			seq = m.Seq
		}
		desc = append(desc, fmt.Sprintf("m%d#%d", seq, x.Attempt))
		r.ackPool = append(r.ackPool, x.AckID)
	}
	r.ev("Pull %s max=%d imm=%v -> [%s]", name, max, immediate, strings.Join(desc, " "))
	sort.Strings(desc)
	r.cev("Pull %s [%s]", name, strings.Join(desc, " "))
	if v := r.M.Pull(ms, int(max), recv, res.t0, res.t1); v != nil {
		return v
	}
	r.Hashes[r.M.Hash()] = true
	if thenAck && len(recv) > 0 {
		var ids []string
		for _, x := range recv {
			if t.Bool(70) {
				ids = append(ids, x.AckID)
			}
		}
		if len(ids) > 0 {
			return r.ackIDs(name, ids)
		}
	}
	return nil
}

func (r *Run) pickAckIDs() (string, []string) {
	t := r.T
	n := 1 + t.Intn(4)
	var ids []string
	for j := 0; j < n && len(r.ackPool) > 0; j++ {
		// bias to recent ids
		var idx int
		if t.Bool(60) {
			k := len(r.ackPool)
			w := 1 + t.Intn(6)
			if w > k {
				w = k
			}
			idx = k - 1 - t.Intn(w)
		} else {
			idx = t.Intn(len(r.ackPool))
		}
		ids = append(ids, r.ackPool[idx])
	}
	if t.Bool(10) {
		ids = append(ids, uuid.NewSHA1(uuid.Nil, []byte(fmt.Sprint("garbage", t.Intn(1000)))).String())
	}
	// subscription named in the request: the owner of the first id, or sometimes another
	sub := subName(t.Intn(r.nSubs))
	if len(ids) > 0 {
		if e := r.M.AckIDs[ids[0]]; e != nil && !t.Bool(8) {
			sub = e.Sub.Name
		}
	}
	return sub, ids
}

func (r *Run) ackIDs(sub string, ids []string) *Violation {
	_, res := r.do("Acknowledge", &pubsubpb.AcknowledgeRequest{Subscription: sub, AckIds: ids})
	r.ev("Acknowledge %s %s -> %v", sub, r.descIDs(ids), code(res.err))
	r.cev("Acknowledge %s %d %v", sub, len(ids), code(res.err))
	if v := r.expectCode("C03", "Acknowledge", res, codes.OK); v != nil {
		return v
	}
	if res.err == nil {
		named := r.M.Subs[sub]
		r.M.Ack(named, ids, res.t0, res.t1)
	}
	return nil
}

func (r *Run) descIDs(ids []string) string {
	var d []string
	for _, id := range ids {
		if e := r.M.AckIDs[id]; e != nil {
			d = append(d, fmt.Sprintf("m%d@%s", e.Msg.Seq, e.Sub.Name[len("projects/p/subscriptions/"):]))
		} else {
			d = append(d, "?")
		}
	}
	return "[" + strings.Join(d, " ") + "]"
}

func (r *Run) doAck() *Violation {
	sub, ids := r.pickAckIDs()
	if len(ids) == 0 {
		return nil
	}
	return r.ackIDs(sub, ids)
}

func (r *Run) doModAck() *Violation {
	t := r.T
	sub, ids := r.pickAckIDs()
	if len(ids) == 0 {
		return nil
	}
	secs := []int32{0, 0, 0, 1, 5, 30, 120, 600}[t.Intn(8)]
	_, res := r.do("ModifyAckDeadline", &pubsubpb.ModifyAckDeadlineRequest{Subscription: sub, AckIds: ids, AckDeadlineSeconds: secs})
	r.ev("ModifyAckDeadline %s %s %ds -> %v", sub, r.descIDs(ids), secs, code(res.err))
	r.cev("ModifyAckDeadline %s %d %v", sub, len(ids), code(res.err))
	if v := r.expectCode("C03", "ModifyAckDeadline", res, codes.OK); v != nil {
		return v
	}
	if res.err == nil {
		r.M.ModAck(r.M.Subs[sub], ids, time.Duration(secs)*time.Second, res.t0, res.t1)
	}
	return nil
}

func (r *Run) doSeekTime(i int) *Violation {
	t := r.T
	name := subName(i)
	now := time.Now()
	var T time.Time
	switch t.Intn(5) {
	case 0:
		T = epoch.Add(-time.Hour) // before everything
	case 1:
		T = now.Add(24 * time.Hour) // future: purge
	case 2:
		T = now
	default:
		// between two publishes: pick a message and aim just after/before it
		var ms []*MMsg
		for _, m := range r.M.Msgs {
			ms = append(ms, m)
		}
		if len(ms) == 0 {
			T = now.Add(-time.Second)
		} else {
			sort.Slice(ms, func(a, b int) bool { return ms[a].Seq < ms[b].Seq })
			m := ms[t.Intn(len(ms))]
			var ex []*MMsg
			for _, x := range ms {
				if x.Exact {
					ex = append(ex, x)
				}
			}
			switch {
			case len(ex) > 0 && t.Bool(45):
				// exactly the publish time of a message: "at or before" is acknowledged
				T = ex[t.Intn(len(ex))].PubTime
				r.M.probe("seek_exact_publish_time")
			case t.Bool(50):
				T = m.T1.Add(time.Millisecond)
			default:
				T = m.T0.Add(-time.Millisecond)
			}
		}
	}
	_, res := r.do("Seek", &pubsubpb.SeekRequest{Subscription: name, Target: &pubsubpb.SeekRequest_Time{Time: timestamppb.New(T)}})
	r.ev("Seek %s to time %v -> %v", name, T.Sub(epoch), code(res.err))
	r.cev("Seek %s %v", name, code(res.err))
	ms := r.M.LiveSub(name)
	want := codes.OK
	if ms == nil {
		want = codes.NotFound
	}
	if v := r.expectCode("C13", "Seek "+name, res, want); v != nil {
		return v
	}
	if res.err == nil {
		r.M.SeekTime(ms, T, res.t0, res.t1)
	}
	return nil
}

func (r *Run) doSnapshot(ni, si int) *Violation {
	name, sub := snapName(ni), subName(si)
	if r.Variant == "snap" && r.T.Bool(35) {
		// completed rows pruned right before the snapshot is computed from the rows
		if v := r.runJob(0, time.Nanosecond, 100, false); v != nil {
			return v
		}
	}
	_, res := r.do("CreateSnapshot", &pubsubpb.CreateSnapshotRequest{Name: name, Subscription: sub})
	r.ev("CreateSnapshot %s of %s -> %v", name, sub, code(res.err))
	r.cev("CreateSnapshot %s %v", name, code(res.err))
	ms := r.M.LiveSub(sub)
	want := codes.OK
	if r.M.Snaps[name] != nil {
		want = codes.AlreadyExists
	} else if ms == nil {
		want = codes.NotFound
	}
	if v := r.expectCode("C12", "CreateSnapshot "+name, res, want); v != nil {
		return v
	}
	if res.err == nil {
		r.M.CreateSnap(name, ms, nil, res.t0, res.t1)
	}
	return nil
}

func (r *Run) doDeleteSnap(ni int) *Violation {
	name := snapName(ni)
	_, res := r.do("DeleteSnapshot", &pubsubpb.DeleteSnapshotRequest{Snapshot: name})
	r.ev("DeleteSnapshot %s -> %v", name, code(res.err))
	r.cev("DeleteSnapshot %s %v", name, code(res.err))
	want := codes.OK
	if r.M.Snaps[name] == nil {
		want = codes.NotFound
	}
	if v := r.expectCode("C12", "DeleteSnapshot "+name, res, want); v != nil {
		return v
	}
	if res.err == nil {
		delete(r.M.Snaps, name)
	}
	return nil
}

func (r *Run) doSeekSnap(si, ni int) *Violation {
	sub, name := subName(si), snapName(ni)
	_, res := r.do("Seek", &pubsubpb.SeekRequest{Subscription: sub, Target: &pubsubpb.SeekRequest_Snapshot{Snapshot: name}})
	r.ev("Seek %s to snapshot %s -> %v", sub, name, code(res.err))
	r.cev("SeekSnap %s %s %v", sub, name, code(res.err))
	ms, sn := r.M.LiveSub(sub), r.M.Snaps[name]
	want := codes.OK
	if ms == nil || sn == nil {
		want = codes.NotFound
	}
	if v := r.expectCode("C13", "Seek(snapshot) "+sub, res, want); v != nil {
		return v
	}
	if res.err == nil {
		r.M.SeekSnap(ms, sn, res.t0, res.t1)
	}
	return nil
}

func (r *Run) doAdvance() *Violation {
	t := r.T
	var d time.Duration
	switch t.Intn(10) {
	case 0, 1:
		d = time.Duration(1+t.Intn(5000)) * time.Microsecond
	case 2, 3, 4, 5:
		d = time.Duration(100+t.Intn(1200000)) * time.Millisecond // 0.1 s .. 20 min
	case 6:
		d = time.Duration(1+t.Intn(400*24)) * time.Hour
	default:
		// aim at a known deadline of some outstanding delivery, just before or just after
		now := time.Now()
		var cands []time.Time
		for _, s := range r.M.AllSubs {
			if !s.Live {
				continue
			}
			for _, e := range s.EDs {
				if e.State == stOut {
					cands = append(cands, e.LeaseLo, e.LeaseHi, e.RetLo)
				}
			}
			cands = append(cands, s.ActHi.Add(s.Cfg.TTL))
		}
		var fut []time.Time
		for _, c := range cands {
			if c.After(now.Add(20*time.Millisecond)) && c.Before(now.Add(500*24*time.Hour)) {
				fut = append(fut, c)
			}
		}
		if len(fut) == 0 {
			d = time.Duration(1+t.Intn(60)) * time.Second
		} else {
			sort.Slice(fut, func(a, b int) bool { return fut[a].Before(fut[b]) })
			c := fut[t.Intn(len(fut))]
			off := []time.Duration{-time.Hour, -time.Second, -11 * time.Millisecond, 11 * time.Millisecond, time.Second + 11*time.Millisecond, time.Hour}[t.Intn(6)]
			d = c.Add(off).Sub(now)
			if d <= 0 {
				d = c.Add(11 * time.Millisecond).Sub(now)
			}
			r.M.probe("advance_to_deadline")
		}
	}
	time.Sleep(d)
	r.Sim.Settle()
	r.ev("advance %v", d)
	return nil
}

var jobNames = []string{"prune-completed-deliveries", "prune-expired-deliveries", "prune-completed-messages", "prune-deleted-subscription-deliveries", "prune-deleted-subscriptions", "prune-deleted-topics", "delete-expired-subscriptions"}

func (r *Run) findJob(name string) services.Service {
	for _, s := range services.VerifDefaultServices() {
		if s.Name() == name {
			return s
		}
	}
	panic("HARNESS: job not found: " + name)
}

func (r *Run) doJob() *Violation {
	t := r.T
	j := t.Intn(6) // the six delete-only jobs; expiry sweep is its own op
	ages := []time.Duration{0, time.Nanosecond, time.Second, time.Minute, time.Hour, 2 * time.Hour}
	minAge := ages[t.Intn(len(ages))]
	maxDel := []int{1, 2, 5, 100}[t.Intn(4)]
	idx := r.jobIdx
	r.jobIdx++
	if r.skipJobs {
		if idx < len(r.jobDur) {
			time.Sleep(r.jobDur[idx])
			r.Sim.Settle()
		}
		return nil
	}
	return r.runJob(j, minAge, maxDel, true)
}

func (r *Run) runJob(j int, minAge time.Duration, maxDel int, record bool) *Violation {
	if minAge > r.maxMinAge {
		r.maxMinAge = minAge
	}
	before, err := r.projection()
	if err != nil {
		panic("HARNESS: projection: " + err.Error())
	}
	start := time.Now()
	n, jerr, ok := services.VerifPruneRunOnce(context.Background(), r.findJob(jobNames[j]), r.W.Client, minAge, maxDel)
	if !ok {
		panic("HARNESS: not a prune service: " + jobNames[j])
	}
	dur := time.Since(start)
	if record {
		r.jobDur = append(r.jobDur, dur)
	}
	r.ev("job %s minAge=%v max=%d -> n=%d err=%v", jobNames[j], minAge, maxDel, n, jerr)
	r.stat("job_" + jobNames[j])
	if n > 0 {
		r.stat("job_deleted_something")
	}
	if j == 0 {
		r.M.NotePrune(start, minAge)
	}
	after, err := r.projection()
	if err != nil {
		panic("HARNESS: projection: " + err.Error())
	}
	ref := time.Now()
	if b, a := before.render(ref), after.render(ref); b != a {
		return viol("C15", "row_projection", "job %s (minAge=%v max=%d) changed live rows:\n--- before\n%s--- after\n%s", jobNames[j], minAge, maxDel, b, a)
	}
	if jerr != nil {
		r.stat("job_error")
		r.ev("   job error: %v", jerr)
	}
	return nil
}

// projection: live topics, live subscriptions, outstanding deliveries (with the state of
// their predecessor link) and the messages they reference, read through a harness-owned
// read-only connection. Rows are returned raw; render(ref) applies the expiry cut at one
// common reference instant so that the mere passing of time during a job is not a change.
type projDelivery struct {
	id, msg        string
	attempts       int64
	attemptAt, exp time.Time
	predID         string
	predDone       bool
	predExp        time.Time
	hasMsg         int64
}
type projRows struct {
	topics, subs, snaps []string
	dels                []projDelivery
}

func asTime(v any) time.Time {
	switch x := v.(type) {
	case time.Time:
		return x
	case string:
		for _, f := range []string{"2006-01-02 15:04:05.999999999-07:00", "2006-01-02T15:04:05.999999999-07:00", time.RFC3339Nano} {
			if t, err := time.Parse(f, x); err == nil {
				return t
			}
		}
	case []byte:
		return asTime(string(x))
	}
	return time.Time{}
}

func (r *Run) projection() (*projRows, error) {
	conn, err := sql.Open("sqlite3", "file:"+r.W.file+".sqlite3?mode=ro&_busy_timeout=10000")
	if err != nil {
		return nil, err
	}
	defer conn.Close()
	out := &projRows{}
	simple := func(dst *[]string, query string) error {
		rows, err := conn.Query(query)
		if err != nil {
			return err
		}
		defer rows.Close()
		for rows.Next() {
			var a, b string
			if err := rows.Scan(&a, &b); err != nil {
				return err
			}
			*dst = append(*dst, a+" "+b)
		}
		sort.Strings(*dst)
		return rows.Err()
	}
	if err := simple(&out.topics, "SELECT id, name FROM topics WHERE deleted_at IS NULL"); err != nil {
		return nil, err
	}
	if err := simple(&out.subs, "SELECT id, name FROM subscriptions WHERE deleted_at IS NULL"); err != nil {
		return nil, err
	}
	if err := simple(&out.snaps, "SELECT id, name FROM snapshots"); err != nil {
		return nil, err
	}
	rows, err := conn.Query(`SELECT d.id, d.message_id, d.attempts, d.attempt_at, d.expires_at,
		coalesce(p.id,''), p.completed_at IS NOT NULL, p.expires_at,
		(SELECT count(*) FROM messages m WHERE m.id = d.message_id)
		FROM deliveries d JOIN subscriptions s ON s.id = d.subscription_id LEFT JOIN deliveries p ON p.id = d.not_before_id
		WHERE d.completed_at IS NULL AND s.deleted_at IS NULL`)
	if err != nil {
		return nil, err
	}
	defer rows.Close()
	for rows.Next() {
		var d projDelivery
		var at, exp, pexp any
		var pdone any
		if err := rows.Scan(&d.id, &d.msg, &d.attempts, &at, &exp, &d.predID, &pdone, &pexp, &d.hasMsg); err != nil {
			return nil, err
		}
		d.attemptAt, d.exp, d.predExp = asTime(at), asTime(exp), asTime(pexp)
		if b, ok := pdone.(int64); ok && b != 0 {
			d.predDone = true
		}
		if b, ok := pdone.(bool); ok && b {
			d.predDone = true
		}
		out.dels = append(out.dels, d)
	}
	return out, rows.Err()
}

func (p *projRows) render(ref time.Time) string {
	var sb strings.Builder
	sb.WriteString("## live topics\n" + strings.Join(p.topics, "\n") + "\n## live subscriptions\n" + strings.Join(p.subs, "\n") + "\n## snapshots\n" + strings.Join(p.snaps, "\n") + "\n## outstanding deliveries (id message attempts attempt_at expires_at blocking-predecessor message-exists)\n")
	var lines []string
	for _, d := range p.dels {
		if !d.exp.After(ref) {
			continue
		}
		pred := "-"
		if d.predID != "" && !d.predDone && d.predExp.After(ref) {
			pred = d.predID
		}
		lines = append(lines, fmt.Sprintf("%s %s %d %s %s %s %d", d.id, d.msg, d.attempts, d.attemptAt.UTC().Format(time.RFC3339Nano), d.exp.UTC().Format(time.RFC3339Nano), pred, d.hasMsg))
	}
	sort.Strings(lines)
	sb.WriteString(strings.Join(lines, "\n") + "\n")
	return sb.String()
}

func (r *Run) doDLSweep() *Violation {
	t := r.T
	limit := []int{1, 3, 100, 100}[t.Intn(4)]
	a := actions.NewDeadLetterDeliveries(actions.DeadLetterDeliveriesParams{MaxDeliveries: limit})
	ctx, cancel := context.WithCancel(context.Background())
	defer cancel()
	faulted := false
	due := r.M.SweepDue(time.Now())
	if r.Variant == "dl" && r.faultsOn && r.pendingFault == "" && (due > 0 || t.Bool(20)) {
		// a storage error on one statement of the sweep's transaction (it reads, inserts the
		// forwarded copies and retires the source in several statements): the sweep either
		// fails and changes nothing, or succeeds completely
		faulted = true
		k := 1 + t.Intn(14)
		if due > 0 {
			k = 3 + t.Intn(8) // among the statements that forward and retire the first deliveries
		}
		r.Sim.Arm(FaultStmtErr, k, cancel)
		r.stat("armed_" + FaultStmtErr.String())
		r.stat("fault_aimed_at_sweep")
		r.ev("arm %v at driver event %d of the dead-letter sweep", FaultStmtErr, k)
	}
	t0 := time.Now()
	err := r.W.Client.DoCtxTx(ctx, nil, a.Execute)
	t1 := time.Now()
	fired := false
	if faulted {
		if _, fired = r.Sim.Disarm(); fired {
			r.stat("fault_fired_in_op")
		}
	}
	res, _ := a.Results()
	r.ev("dead-letter sweep limit=%d -> n=%d err=%v", limit, res.NumDeadLettered, err)
	if err != nil && fired {
		r.cev("sweep failed under fault")
		return nil // rolled back: nothing changed
	}
	if err != nil {
		return viol("C06", "sweep_error", "dead-letter sweep failed: %v", err)
	}
	r.M.Sweep(limit, t0, t1)
	return nil
}

func (r *Run) doExpirySweep(maxDel int) *Violation {
	t0 := time.Now()
	n, jerr, _ := services.VerifPruneRunOnce(context.Background(), r.findJob("delete-expired-subscriptions"), r.W.Client, time.Hour, maxDel)
	t1 := time.Now()
	r.ev("expiry sweep -> n=%d err=%v", n, jerr)
	if jerr != nil {
		return viol("C14", "expiry_sweep_error", "expiry sweep failed: %v", jerr)
	}
	// observe through the API which subscriptions are still there
	for _, s := range append([]*MSub(nil), r.M.AllSubs...) {
		if !s.Live {
			continue
		}
		verdict := r.M.ExpiryVerdict(s, t0, t1)
		_, err := r.W.Call(context.Background(), "GetSubscription", &pubsubpb.GetSubscriptionRequest{Subscription: s.Name})
		c := code(err)
		if c != codes.OK && c != codes.NotFound {
			return viol("C14", "get_after_sweep", "GetSubscription %s after expiry sweep: %v", s.Name, err)
		}
		gone := c == codes.NotFound
		switch verdict {
		case 1:
			if !gone {
				return viol("C14", "not_expired", "subscription %s had no pull activity since %v (ttl %v) but survived the expiry sweep at %v", s.Name, s.ActHi.Sub(epoch), s.Cfg.TTL, t0.Sub(epoch))
			}
			r.M.probe("sub_expired")
		case 0:
			if gone {
				return viol("C14", "expired_early", "subscription %s was active at %v (ttl %v) but was expired by the sweep at %v", s.Name, s.ActLo.Sub(epoch), s.Cfg.TTL, t1.Sub(epoch))
			}
		}
		if gone {
			r.ev("   %s expired", s.Name)
			r.cev("expired %s", s.Name)
			r.M.DeleteSub(s)
		}
	}
	return nil
}

func (r *Run) doSetDelay(i int) *Violation {
	t := r.T
	name := subName(i)
	d := []time.Duration{0, time.Second, 30 * time.Second, time.Hour}[t.Intn(4)]
	ms := r.M.LiveSub(name)
	st, err := r.setDelayHTTP(name, d)
	r.ev("PUT /delays/%s %v -> %d %v", name, d, st, err)
	if err != nil {
		return viol("C14", "delay_injector", "PUT /delays failed: %v", err)
	}
	if ms == nil {
		if st != 404 {
			return viol("C14", "delay_injector_status", "PUT /delays on missing subscription returned %d", st)
		}
		return nil
	}
	if st != 200 {
		return viol("C14", "delay_injector_status", "PUT /delays/%s returned %d", name, st)
	}
	ms.Cfg.Delay = d
	r.M.ConfigChanged(ms)
	return nil
}

// ---- drain ---------------------------------------------------------------------------------

func (r *Run) drain() *Violation {
	r.pendingFault = ""
	r.ev("---- drain")
	budget := 40
	for _, s := range r.M.AllSubs {
		budget += 3 * len(s.EDs)
	}
	idle := 0
	for round := 0; round < budget; round++ {
		now := time.Now()
		out := r.M.Outstanding(now)
		if len(out) == 0 {
			r.stat("drained")
			return nil
		}
		// advance past the largest lease bound among deliveries that can still be delivered
		var target time.Time
		for _, e := range out {
			if e.DLMaybe {
				continue
			}
			if e.LeaseHi.After(target) && e.LeaseHi.Before(e.RetLo) {
				target = e.LeaseHi
			}
		}
		if target.After(now) {
			time.Sleep(target.Sub(now) + 20*time.Millisecond)
			r.Sim.Settle()
			r.ev("advance to %v", time.Since(epoch))
		}
		progress := false
		for _, s := range append([]*MSub(nil), r.M.AllSubs...) {
			if !s.Live {
				continue
			}
			resp, res := r.do("Pull", &pubsubpb.PullRequest{Subscription: s.Name, MaxMessages: 1000, ReturnImmediately: true})
			if res.err != nil {
				return viol("C01", "drain_pull_error", "drain pull on %s failed: %v", s.Name, res.err)
			}
			recv := toRecv(resp.(*pubsubpb.PullResponse).ReceivedMessages)
			var desc []string
			for _, x := range recv {
				if m := r.M.Msgs[x.MsgID]; m != nil {
					desc = append(desc, fmt.Sprintf("m%d#%d", m.Seq, x.Attempt))
				}
			}
			r.ev("drain Pull %s -> [%s]", s.Name, strings.Join(desc, " "))
			if v := r.M.Pull(s, 1000, recv, res.t0, res.t1); v != nil {
				return v
			}
			if len(recv) > 0 {
				progress = true
				var ids []string
				for _, x := range recv {
					ids = append(ids, x.AckID)
				}
				if v := r.ackIDs(s.Name, ids); v != nil {
					return v
				}
			}
		}
		if !progress {
			// nothing delivered: whatever is left waits behind a lease the model does not
			// know (fuzzy predecessor) or a maybe state; move the clock in growing steps
			idle++
			d := 3 * time.Hour
			if idle < 13 {
				d = time.Second << uint(idle)
			}
			time.Sleep(d)
			r.Sim.Settle()
		} else {
			idle = 0
		}
	}
	now := time.Now()
	out := r.M.Outstanding(now)
	if len(out) > 0 {
		// anything still outstanding that is not in a maybe state was never offered
		for _, e := range out {
			blocked := e.Sub.Cfg.Ordered && e.Msg.Key != "" && r.M.orderBlocked(e, now)
			if !e.DLMaybe && !blocked {
				return viol(causeProp(e), "drain_not_delivered", "drain budget exhausted; %v still outstanding", e)
			}
		}
	}
	return nil
}

// ---- fixpoint (C15) ------------------------------------------------------------------------

// partialFixpoint: with the history's live resources still in place (live subscriptions on
// deleted topics, deleted topics still named by dead-letter policies, ... - rows the jobs must
// leave alone), the six delete-only jobs run in rounds with a small batch size until a whole
// round deletes nothing; then the same jobs run once with an unbounded batch. The clock stands
// still throughout (no SQL latency tick), so what is eligible does not change: anything the
// unbounded round still reclaims was dead and left behind by jobs that had stopped making
// progress ("batch sizes from 1 upward ... no job stays stuck").
func (r *Run) partialFixpoint() *Violation {
	minAge := r.maxMinAge
	if minAge < time.Second {
		minAge = time.Second
	}
	time.Sleep(minAge + time.Second)
	r.Sim.Settle()
	tick := r.Sim.tick
	r.Sim.tick = 0
	defer func() { r.Sim.tick = tick }()
	rows, err := r.rowCounts()
	if err != nil {
		panic("HARNESS: " + err.Error())
	}
	total := 0
	for _, n := range rows {
		total += n
	}
	maxDel := 1 + r.T.Intn(3)
	rounds := total/maxDel + total + 8
	start := time.Now()
	settled := false
	for round := 0; round < rounds; round++ {
		deleted := 0
		order := []int{0, 1, 2, 3, 4, 5}
		for i := len(order) - 1; i > 0; i-- {
			j := r.T.Intn(i + 1)
			order[i], order[j] = order[j], order[i]
		}
		for _, j := range order {
			n, _, _ := services.VerifPruneRunOnce(context.Background(), r.findJob(jobNames[j]), r.W.Client, minAge, maxDel)
			deleted += n
		}
		if deleted == 0 {
			settled = true
			r.ev("partial fixpoint: batch size %d settled after %d rounds", maxDel, round+1)
			break
		}
	}
	if !settled {
		return nil // (bounded number of rounds used up: no verdict)
	}
	var more []string
	for j := 0; j < 6; j++ {
		n, _, _ := services.VerifPruneRunOnce(context.Background(), r.findJob(jobNames[j]), r.W.Client, minAge, 1000000)
		if n > 0 {
			more = append(more, fmt.Sprintf("%s=%d", jobNames[j], n))
		}
	}
	if !time.Now().Equal(start) {
		panic("HARNESS: the clock moved during the partial fixpoint")
	}
	r.stat("partial_fixpoint_checked")
	if len(more) > 0 {
		return viol("C15", "stuck_small_batches", "with batch size %d the jobs stopped deleting (a whole round of all six deleted nothing) although dead rows were left: the same jobs with an unbounded batch, at the same instant, then reclaimed %s", maxDel, strings.Join(more, " "))
	}
	return nil
}

func (r *Run) fixpoint() *Violation {
	r.ev("---- fixpoint")
	if v := r.partialFixpoint(); v != nil {
		return v
	}
	// delete everything through the API
	for _, s := range append([]*MSub(nil), r.M.AllSubs...) {
		if s.Live {
			if _, res := r.do("DeleteSubscription", &pubsubpb.DeleteSubscriptionRequest{Subscription: s.Name}); res.err != nil {
				return viol("C12", "status", "DeleteSubscription %s in fixpoint: %v", s.Name, res.err)
			}
			r.M.DeleteSub(s)
		}
	}
	var snapNames []string
	for n := range r.M.Snaps {
		snapNames = append(snapNames, n)
	}
	sort.Strings(snapNames)
	for _, n := range snapNames {
		if _, res := r.do("DeleteSnapshot", &pubsubpb.DeleteSnapshotRequest{Snapshot: n}); res.err != nil {
			return viol("C12", "status", "DeleteSnapshot %s in fixpoint: %v", n, res.err)
		}
		delete(r.M.Snaps, n)
	}
	var topicNames []string
	for n := range r.M.Topics {
		topicNames = append(topicNames, n)
	}
	sort.Strings(topicNames)
	for _, n := range topicNames {
		mt := r.M.Topics[n]
		if mt.Live {
			if _, res := r.do("DeleteTopic", &pubsubpb.DeleteTopicRequest{Topic: mt.Name}); res.err != nil {
				return viol("C12", "status", "DeleteTopic %s in fixpoint: %v", mt.Name, res.err)
			}
			r.M.DeleteTopic(mt)
		}
	}
	minAge := r.maxMinAge
	if minAge < time.Second {
		minAge = time.Second
	}
	time.Sleep(minAge + time.Second)
	r.Sim.Settle()
	rows, err := r.rowCounts()
	if err != nil {
		panic("HARNESS: " + err.Error())
	}
	total := 0
	for _, n := range rows {
		total += n
	}
	maxDel := []int{1, 3, 100}[r.T.Intn(3)]
	rounds := total/maxDel + total + 8
	var lastErrs []string
	for round := 0; round < rounds; round++ {
		deleted := 0
		lastErrs = nil
		order := []int{0, 1, 2, 3, 4, 5, 6} // all seven maintenance jobs, expiry included
		// tape-chosen order
		for i := len(order) - 1; i > 0; i-- {
			j := r.T.Intn(i + 1)
			order[i], order[j] = order[j], order[i]
		}
		for _, j := range order {
			n, jerr, _ := services.VerifPruneRunOnce(context.Background(), r.findJob(jobNames[j]), r.W.Client, minAge, maxDel)
			deleted += n
			if jerr != nil {
				lastErrs = append(lastErrs, fmt.Sprintf("%s: %v", jobNames[j], jerr))
			}
		}
		r.ev("fixpoint round %d deleted %d errs=%d", round, deleted, len(lastErrs))
		if deleted == 0 {
			break
		}
	}
	if len(lastErrs) > 0 {
		d, _ := r.W.Dump(false)
		return viol("C15", "job_stuck", "at the fixpoint a job still fails: %s\n%s", strings.Join(lastErrs, "; "), d)
	}
	rows, err = r.rowCounts()
	if err != nil {
		panic("HARNESS: " + err.Error())
	}
	var left []string
	for _, tbl := range []string{"topics", "subscriptions", "messages", "deliveries", "snapshots"} {
		if rows[tbl] != 0 {
			left = append(left, fmt.Sprintf("%s=%d", tbl, rows[tbl]))
		}
	}
	if len(left) > 0 {
		d, _ := r.W.Dump(false)
		return viol("C15", "not_reclaimed", "after everything was deleted for longer than minAge=%v and job rounds reached a fixpoint, rows remain: %s\n%s", minAge, strings.Join(left, " "), d)
	}
	r.stat("fixpoint_clean")
	return nil
}

func (r *Run) rowCounts() (map[string]int, error) {
	conn, err := sql.Open("sqlite3", "file:"+r.W.file+".sqlite3?mode=ro&_busy_timeout=10000")
	if err != nil {
		return nil, err
	}
	defer conn.Close()
	out := map[string]int{}
	for _, tbl := range []string{"topics", "subscriptions", "messages", "deliveries", "snapshots"} {
		var n int
		if err := conn.QueryRow("SELECT count(*) FROM " + tbl).Scan(&n); err != nil {
			return nil, err
		}
		out[tbl] = n
	}
	return out, nil
}

// ---- run -----------------------------------------------------------------------------------

func (r *Run) setup() *Violation {
	// start productive: a few topics and subscriptions
	r.T.Frame()
	nt := 1 + r.T.Intn(r.nTopics)
	for i := 0; i < nt; i++ {
		if v := r.doCreateTopic(i); v != nil {
			return v
		}
	}
	ns := 1 + r.T.Intn(r.nSubs)
	for i := 0; i < ns; i++ {
		r.T.Frame()
		if v := r.doCreateSub(i, r.T.Intn(nt)); v != nil {
			return v
		}
	}
	return nil
}

// RunHist executes one history inside the bubble; steps is the number of generated steps.
func RunHist(r *Run, steps int) *Violation {
	r.configure()
	// tick escalation per step (StepBegin in step()); no step on the unchanged tree reaches a
	// third of this (largest seen: about 3 100 events). Only here: engines that merely borrow configure() (atomic, wake, stream,
	// push) count per run and keep the default
	r.Sim.spinAfter = 15000
	if v := r.setup(); v != nil {
		return v
	}
	r.header = len(r.T.marks)
	if r.fixedSteps > 0 {
		steps = r.fixedSteps // (paired second run: exactly as many operations as the first)
	}
	for i := 0; i < steps; i++ {
		if r.fixedSteps == 0 && r.T.Exhausted() {
			break
		}
		if v := r.step(); v != nil {
			return v
		}
		r.stepsDone++
	}
	if v := r.drain(); v != nil {
		return v
	}
	r.cev("---- end of client-visible history")
	if (r.Variant == "prune" || r.jobsOn) && !r.skipJobs {
		if v := r.fixpoint(); v != nil {
			return v
		}
	}
	return nil
}

// nudge: scheduling hygiene, not an oracle. A pull whose server-side "now" falls within
// microseconds of a stored attempt_at makes mmmbbb's own select (timeout vs next-attempt
// timer, both ready) decide the outcome, and Go resolves that at random: the run would not
// replay. If any outstanding delivery's deadline lies inside the coming window the clock is
// moved just past it, so that no operation ever straddles a deadline at microsecond distance.
func (r *Run) nudge(window time.Duration) {
	conn, err := r.W.ro()
	if err != nil {
		return
	}
	for i := 0; i < 8; i++ {
		now := time.Now()
		// only rows that can still be delivered: rows of deleted subscriptions and expired rows
		// are exactly what the prune jobs remove, and the paired runs (with / without jobs)
		// must be nudged identically
		rows, err := conn.Query("SELECT d.attempt_at, d.expires_at FROM deliveries d JOIN subscriptions s ON s.id = d.subscription_id WHERE d.completed_at IS NULL AND s.deleted_at IS NULL")
		if err != nil {
			return
		}
		var latest time.Time
		for rows.Next() {
			var a, b any
			if rows.Scan(&a, &b) != nil {
				continue
			}
			if asTime(b).Before(now.Add(-time.Millisecond)) {
				continue // expired already
			}
			for _, t := range []time.Time{asTime(a), asTime(b)} {
				if t.After(now.Add(-time.Millisecond)) && t.Before(now.Add(window)) && t.After(latest) {
					latest = t
				}
			}
		}
		rows.Close()
		if latest.IsZero() {
			return
		}
		r.stat("nudged_past_deadline")
		time.Sleep(latest.Sub(now) + time.Millisecond + 7*time.Microsecond)
		r.Sim.Settle()
	}
}

// runPaired (C15 oracle 2): the same tape is executed twice, with the prune jobs and with
// the job frames consumed but not executed (the clock is moved by exactly the time each job
// took, so both runs see identical clocks at every client operation). Pulls ask for more than
// the backlog, seeks are excluded: the client-visible traces must be identical.
func runPaired(t *testing.T, tape *Tape, w *World, variant string, steps int, out *runOutcome) {
	a := &Run{T: tape, W: w, M: NewModel(), Sim: S, Variant: "prune", Stats: map[string]int{}, Hashes: map[uint64]bool{}}
	a.M.KnownSigs = knownSigs
	uuidSeed := int64(tape.Intn(1 << 30))
	uuid.SetRand(rand.New(rand.NewSource(uuidSeed)))
	va := RunHist(a, steps)
	out.trace, out.stats, out.probes, out.hashes, out.header = a.Trace, a.Stats, a.M.Probes, a.Hashes, a.header
	out.sample = sampleOf(a.Trace)
	if va != nil {
		out.v = va
		return
	}
	if a.Stats["job_deleted_something"] == 0 {
		a.Stats["paired_trivial"]++
		return
	}
	w2, err := NewWorld(w.dir, 1)
	if err != nil {
		panic("HARNESS: world: " + err.Error())
	}
	defer w2.Close()
	uuid.SetRand(rand.New(rand.NewSource(uuidSeed)))
	b := &Run{T: ReplayTape(tape.Frames()), W: w2, M: NewModel(), Sim: S, Variant: "prune", Stats: map[string]int{}, Hashes: map[uint64]bool{}}
	b.M.KnownSigs = knownSigs
	b.skipJobs, b.jobDur = true, a.jobDur
	b.fixedSteps = a.stepsDone
	if a.stepsDone == 0 {
		a.Stats["paired_trivial"]++
		return
	}
	if vb := RunHist(b, steps); vb != nil {
		out.v = viol("C15", "unspliced_run_differs", "the same history without the prune jobs violates the model although the spliced one did not: %v", vb)
		out.trace = append(out.trace, "==== run without jobs")
		out.trace = append(out.trace, b.Trace...)
		return
	}
	ca, cb := a.CTrace, b.CTrace
	for i := 0; i < len(ca) && i < len(cb); i++ {
		if ca[i] != cb[i] {
			out.v = viol("C15", "paired_trace", "client-visible traces diverge at event %d: with prune jobs %q, without %q", i, ca[i], cb[i])
			out.trace = append(out.trace, "==== the same history without the prune jobs")
			out.trace = append(out.trace, b.Trace...)
			return
		}
		if ca[i] == "---- end of client-visible history" {
			break
		}
	}
	a.Stats["paired_compared"]++
}

func init() { engines["paired"] = runPaired }

// doChase follows one outstanding delivery through many redeliveries: advance to just before
// its lease lower bound (must not be offered), then past the upper bound (must be offered),
// again and again, so that high attempt numbers (saturation at maxBackoff) are reached.
func (r *Run) doChase() *Violation {
	t := r.T
	var cands []*ED
	for _, s := range r.M.AllSubs {
		if !s.Live || s.Cfg.fullDL() {
			continue
		}
		for _, e := range s.EDs {
			if e.State == stOut && !e.Fuzzy && e.Seen > 0 && e.mustAlive(time.Now().Add(24*time.Hour)) {
				cands = append(cands, e)
			}
		}
	}
	if len(cands) == 0 {
		return nil
	}
	e := cands[t.Intn(len(cands))]
	rounds := 3 + t.Intn(48)
	if t.Bool(8) {
		// far beyond any attempt number ordinary use reaches: minBackoff x 1.1^n has left the
		// range of every integer type long before, only the cap keeps the delay meaningful
		rounds = 230 + t.Intn(120)
		var long []*ED
		for _, c := range cands {
			if c.mustAlive(time.Now().Add(time.Duration(rounds+2) * (nominalBackoff(&c.Sub.Cfg, 1000) + time.Second))) {
				long = append(long, c)
			}
		}
		if len(long) > 0 {
			e = long[t.Intn(len(long))]
			r.stat("long_chase")
		}
	}
	r.ev("chase m%d on %s for %d rounds", e.Msg.Seq, e.Sub.Name, rounds)
	for k := 0; k < rounds; k++ {
		if e.State != stOut || e.Fuzzy || !e.Sub.Live {
			return nil
		}
		now := time.Now()
		if !e.mustAlive(now.Add(e.LeaseHi.Sub(now) + time.Hour)) {
			return nil
		}
		if t.Bool(30) && e.LeaseLo.Sub(now) > 30*time.Millisecond {
			time.Sleep(e.LeaseLo.Sub(now) - 11*time.Millisecond)
			r.Sim.Settle()
			if v := r.pullSub(e.Sub, false); v != nil {
				return v
			}
			now = time.Now()
		}
		if d := e.LeaseHi.Sub(now) + 11*time.Millisecond; d > 0 {
			time.Sleep(d)
			r.Sim.Settle()
		}
		if v := r.pullSub(e.Sub, false); v != nil {
			return v
		}
		r.M.probe("chase_round")
		if e.Seen >= 220 {
			r.M.probe("chase_attempt_220_or_more")
		}
	}
	return nil
}

// doWaitUpdate: while a pull waits on an idle subscription, another client raises the
// subscription's expiration TTL (mask: expiration_policy only). The pull ends by its own
// time-out, which counts as activity; the expiry job then runs after the OLD TTL has passed
// since, and well before the new one has: the subscription must still be there (C14: a full
// TTL without pull activity, with the TTL that is configured).
func (r *Run) doWaitUpdate(i int) *Violation {
	name := subName(i)
	ms := r.M.LiveSub(name)
	if r.pendingFault != "" || ms == nil || ms.Cfg.TTL <= 0 || ms.Cfg.TTL > time.Hour {
		return nil
	}
	now := time.Now()
	for _, e := range ms.EDs {
		if (e.State == stOut || e.Fuzzy) && e.mayAlive(now) && !e.LeaseLo.After(now.Add(2*time.Minute)) {
			return nil // something is or soon becomes deliverable: the pull would not sit out its wait
		}
	}
	oldTTL := ms.Cfg.TTL
	newTTL := 24 * time.Hour
	r.nudge(5 * time.Millisecond)
	ctx, cancel := context.WithCancel(context.Background())
	defer cancel()
	var err error
	var resp proto.Message
	done := make(chan struct{})
	t0 := time.Now()
	go func() {
		defer close(done)
		resp, err = r.W.Call(ctx, "Pull", &pubsubpb.PullRequest{Subscription: name, MaxMessages: 10})
	}()
	r.Sim.Settle()
	finished := func() bool {
		select {
		case <-done:
			return true
		default:
			return false
		}
	}
	if !finished() {
		_, res := r.do("UpdateSubscription", &pubsubpb.UpdateSubscriptionRequest{
			Subscription: &pubsubpb.Subscription{Name: name, ExpirationPolicy: &pubsubpb.ExpirationPolicy{Ttl: durationpb.New(newTTL)}},
			UpdateMask:   &fieldmaskpb.FieldMask{Paths: []string{"expiration_policy"}}})
		r.ev("UpdateSubscription %s expiration_policy ttl %v -> %v while a pull waits -> %v", name, oldTTL, newTTL, code(res.err))
		r.cev("UpdateSubscription %s ttl %v", name, code(res.err))
		if res.err != nil {
			cancel()
			<-done
			return r.expectCode("C17", "UpdateSubscription "+name, res, codes.OK)
		}
		ms.Cfg.TTL = newTTL
		r.M.ConfigChanged(ms)
		ms.ActLo, ms.ActHi = res.t0, res.t1
		r.Sim.Settle()
	}
	for k := 0; k < 70 && !finished(); k++ {
		time.Sleep(time.Second)
		r.Sim.Settle()
	}
	timedOut := finished()
	if !timedOut {
		cancel()
	}
	<-done
	r.Sim.Settle()
	t1 := time.Now()
	if p, ok := isPanic(err); ok {
		return viol("C16", "panic:Pull", "%v", p.Val)
	}
	r.ev("Pull %s (waiting, ttl updated meanwhile) ended after %v -> %v", name, t1.Sub(t0), code(err))
	r.cev("PullTTL %s %v", name, code(err))
	if err != nil || !timedOut {
		if ms = r.M.LiveSub(name); ms != nil && ms.ActHi.Before(t1) {
			ms.ActHi = t1
		}
		return nil
	}
	recv := toRecv(resp.(*pubsubpb.PullResponse).ReceivedMessages)
	for _, x := range recv {
		r.ackPool = append(r.ackPool, x.AckID)
	}
	if v := r.M.Pull(ms, 10, recv, t0, t1); v != nil {
		return v
	}
	r.M.probe("waiting_pull_ttl_raised")
	// the old TTL has passed since the pull's activity, the new one has not by far
	time.Sleep(oldTTL + 2*time.Minute)
	r.Sim.Settle()
	return r.doExpirySweep(1000)
}

// doWaitDLUpdate (C06): the dead-letter policy of a subscription is changed while a pull is
// parked on it, waiting for the lease of a delivery that was handed out before. When the lease
// runs out the parked pull must treat the delivery by the policy in force THEN: with the limit
// raised or the policy removed it is delivered again, with the limit lowered to the attempts
// already made (or a policy attached) it is retired and forwarded, not delivered. The parked
// pull is watched in slices of virtual time (see doWaitExpire) so that its response is known to
// have been computed after the update; a plain pull afterwards settles what an empty response
// leaves open.
func (r *Run) doWaitDLUpdate(i int) *Violation {
	t := r.T
	name := subName(i)
	ms := r.M.LiveSub(name)
	if r.pendingFault != "" || ms == nil || ms.Cfg.Ordered || (ms.Cfg.fullDL() && !ms.Cfg.strictDL()) {
		return nil
	}
	pick := func() *ED {
		r.nudge(5 * time.Millisecond)
		now := time.Now()
		var target *ED
		for _, e := range ms.EDs {
			if e.State == stGone || !e.mayAlive(now) {
				continue
			}
			if e.Fuzzy || e.DLMaybe {
				return nil // something the model cannot place: no scenario
			}
			if e.State == stOut && (target == nil || e.LeaseLo.Before(target.LeaseLo)) {
				target = e
			}
		}
		if target == nil || target.Seen < 1 || target.SeenUnc != 0 || r.M.hasCopies(target) ||
			target.LeaseLo.Before(now.Add(1500*time.Millisecond)) || target.LeaseHi.After(now.Add(45*time.Second)) ||
			!target.mustAlive(target.LeaseHi.Add(5*time.Minute)) {
			return nil
		}
		return target
	}
	target := pick()
	if target == nil {
		// hand out whatever is deliverable now, so that there is a lease to wait for
		if v := r.pullSub(ms, false); v != nil {
			return v
		}
		if ms = r.M.LiveSub(name); ms == nil || (ms.Cfg.fullDL() && !ms.Cfg.strictDL()) {
			return nil
		}
		if target = pick(); target == nil {
			return nil
		}
	}
	cfg := ms.Cfg
	req := &pubsubpb.Subscription{Name: name}
	what := ""
	if cfg.strictDL() {
		switch t.Intn(3) {
		case 0:
			cfg.MaxAttempts = int32(target.Seen + 1 + t.Intn(3))
			what = "limit raised"
		case 1:
			cfg.MaxAttempts = int32(target.Seen)
			what = "limit lowered"
		default:
			cfg.DLTopic, cfg.MaxAttempts = nil, 0
			what = "policy removed"
		}
		if cfg.DLTopic != nil {
			if cfg.MaxAttempts == ms.Cfg.MaxAttempts {
				return nil
			}
			req.DeadLetterPolicy = &pubsubpb.DeadLetterPolicy{DeadLetterTopic: cfg.DLTopic.Name, MaxDeliveryAttempts: cfg.MaxAttempts}
		}
	} else {
		dt := r.M.LiveTopic(topicName(r.nTopics - 1))
		if dt == nil || (r.noCycle && !r.dlAllowed(name, ms.Topic.Name, dt)) {
			return nil
		}
		cfg.DLTopic, cfg.MaxAttempts = dt, int32(target.Seen+t.Intn(2))
		what = "policy attached"
		req.DeadLetterPolicy = &pubsubpb.DeadLetterPolicy{DeadLetterTopic: dt.Name, MaxDeliveryAttempts: cfg.MaxAttempts}
	}
	ctx, cancel := context.WithCancel(context.Background())
	defer cancel()
	ctx, mark := WithBeginMark(ctx)
	var err error
	var resp proto.Message
	done := make(chan struct{})
	t0 := time.Now()
	go func() {
		defer close(done)
		resp, err = r.W.Call(ctx, "Pull", &pubsubpb.PullRequest{Subscription: name, MaxMessages: 10})
	}()
	r.Sim.Settle()
	finished := func() bool {
		select {
		case <-done:
			return true
		default:
			return false
		}
	}
	lastParked := t0
	updated := false
	if !finished() {
		_, res := r.do("UpdateSubscription", &pubsubpb.UpdateSubscriptionRequest{Subscription: req, UpdateMask: &fieldmaskpb.FieldMask{Paths: []string{"dead_letter_policy"}}})
		r.ev("UpdateSubscription %s dead_letter_policy (%s, now max %d) while a pull waits for the lease of %v -> %v", name, what, cfg.MaxAttempts, target, code(res.err))
		r.cev("UpdateSubscription %s dlp %v", name, code(res.err))
		if res.err != nil {
			cancel()
			<-done
			r.Sim.Settle()
			return r.expectCode("C17", "UpdateSubscription "+name, res, codes.OK)
		}
		ms.Cfg = cfg
		r.M.ConfigChanged(ms)
		updated = true
		r.Sim.Settle()
		lastParked = time.Now()
	}
	for k := 0; k < 150 && !finished(); k++ {
		lastParked = time.Now()
		time.Sleep(500 * time.Millisecond)
		r.Sim.Settle()
	}
	if !finished() {
		return viol("C16", "wedged_pull", "a waiting Pull on %s did not end within 75 s (its own time-out is 59 s)", name)
	}
	<-done
	r.Sim.Settle()
	t1 := time.Now()
	if p, ok := isPanic(err); ok {
		return viol("C16", "panic:Pull", "%v", p.Val)
	}
	if err != nil {
		r.ev("Pull %s (waiting, dead-letter policy changed meanwhile) after %v -> %v", name, t1.Sub(t0), code(err))
		r.cev("PullDLP %s %v", name, code(err))
		return viol("C12", "code:Pull "+name, "a waiting pull on a live subscription failed: %v", err)
	}
	recv := toRecv(resp.(*pubsubpb.PullResponse).ReceivedMessages)
	var desc []string
	for _, x := range recv {
		seq := -1
		if m := r.M.Msgs[x.MsgID]; m != nil {
			seq = m.Seq
		}
		desc = append(desc, fmt.Sprintf("m%d#%d", seq, x.Attempt))
		r.ackPool = append(r.ackPool, x.AckID)
	}
	sort.Strings(desc)
	r.ev("Pull %s (waiting, %s meanwhile: %v) returned [%s] after %v (last seen parked at +%v, last transaction begun at +%v)", name, what, updated, strings.Join(desc, " "), t1.Sub(t0), lastParked.Sub(t0), mark.Last.Sub(t0))
	r.cev("PullDLP %s [%s]", name, strings.Join(desc, " "))
	if ms = r.M.LiveSub(name); ms == nil {
		return nil
	}
	from := t0
	if updated && len(recv) > 0 {
		if mark.N > 0 && mark.Last.After(lastParked) {
			lastParked = mark.Last
		}
		from = lastParked
	}
	if v := r.M.Pull(ms, 10, recv, from, t1); v != nil {
		return v
	}
	if updated {
		r.M.probe("waiting_pull_dl_policy_changed")
		r.stat("waitdl_" + strings.ReplaceAll(what, " ", "_"))
	}
	// past the end of the lease in any case; a plain pull settles what the waiting one left open
	if d := time.Until(target.LeaseHi.Add(11 * time.Millisecond)); d > 0 && target.State == stOut {
		time.Sleep(d)
		r.Sim.Settle()
	}
	return r.pullSub(ms, false)
}

// doSweepChase brings one delivery of a dead-lettering subscription to the state only the
// background sweep handles - attempts used up, last lease run out, nobody pulling - and
// then runs the sweep (which, in fault-injecting runs, gets a storage error aimed at the
// statements that forward and retire it, see doDLSweep).
func (r *Run) doSweepChase() *Violation {
	t := r.T
	var cands []*ED
	now := time.Now()
	for _, s := range r.M.AllSubs {
		if !s.Live || !s.Cfg.strictDL() || s.Cfg.Ordered || nominalBackoff(&s.Cfg, int(s.Cfg.MaxAttempts)) > time.Hour {
			continue
		}
		for _, e := range s.EDs {
			if e.State == stOut && !e.Fuzzy && !e.DLMaybe && e.SeenUnc == 0 && e.mustAlive(now.Add(12*time.Hour)) {
				cands = append(cands, e)
			}
		}
	}
	if len(cands) == 0 {
		return nil
	}
	e := cands[t.Intn(len(cands))]
	n := int(e.Sub.Cfg.MaxAttempts)
	r.ev("sweep chase: m%d on %s up to %d attempts", e.Msg.Seq, e.Sub.Name, n)
	for k := 0; k <= n+1; k++ {
		if e.State != stOut || e.Fuzzy || e.DLMaybe || !e.Sub.Live || !e.Sub.Cfg.strictDL() {
			return nil
		}
		now = time.Now()
		if !e.mustAlive(now.Add(e.LeaseHi.Sub(now) + time.Hour)) {
			return nil
		}
		if d := e.LeaseHi.Sub(now) + 11*time.Millisecond; d > 0 {
			time.Sleep(d)
			r.Sim.Settle()
		}
		if e.Seen >= n {
			break
		}
		if v := r.pullSub(e.Sub, false); v != nil {
			return v
		}
	}
	if e.State != stOut || e.Seen < n {
		return nil
	}
	r.M.probe("sweep_chase_ready")
	return r.doDLSweep()
}

// doNack sends a backoff-rescheduling nack (the streamer's Nack input, which the HTTP pusher
// produces for failed pushes) through the real stream ack+nack transaction wrapper.
func (r *Run) doNack() *Violation {
	if actions.VerifStreamAckNack == nil {
		return nil
	}
	_, ids := r.pickAckIDs()
	if r.T.Bool(25) {
		// a client that shuts down releases everything it holds, on all its subscriptions, in
		// one request: deliveries of different subscriptions (different retry and dead-letter
		// policies) at equal attempt numbers meet in one batch
		ids = nil
		for _, s := range r.M.AllSubs {
			if !s.Live {
				continue
			}
			for _, e := range s.EDs {
				if e.State == stOut && e.AckID != "" && len(ids) < 40 {
					ids = append(ids, e.AckID)
				}
			}
		}
		r.stat("nack_release_all")
	}
	var us []uuid.UUID
	var good []string
	for _, id := range ids {
		if u, err := uuid.Parse(id); err == nil {
			us = append(us, u)
			good = append(good, id)
		}
	}
	if len(us) == 0 {
		return nil
	}
	pf := r.pendingFault
	r.pendingFault = ""
	_ = pf // nacks are not faulted here (C09 enumerates the wrapper's fault points)
	t0 := time.Now()
	err := actions.VerifStreamAckNack(context.Background(), r.W.Client, uuid.Nil, "nack", nil, us)
	t1 := time.Now()
	r.ev("stream Nack %s -> %v", r.descIDs(good), err)
	r.cev("Nack %d %v", len(good), err == nil)
	if err != nil {
		return viol("C04", "nack_error", "nack of %v failed: %v", good, err)
	}
	r.M.Nack(good, t0, t1)
	return nil
}

// doWaitCancel: a Pull without return_immediately on a subscription with nothing deliverable
// goes to wait server-side; the client gives up (cancels) while it waits. The pull counts as
// activity for the subscription's expiry clock (C14: every pull, even an empty one).
func (r *Run) doWaitCancel(i int) *Violation {
	name := subName(i)
	ms := r.M.LiveSub(name)
	if ms == nil {
		return nil
	}
	now := time.Now()
	for _, e := range ms.EDs {
		if (e.State == stOut || e.Fuzzy) && e.mayAlive(now) && !e.LeaseLo.After(now.Add(2*time.Minute)) {
			return nil // something is or soon becomes deliverable: this would not be an empty wait
		}
	}
	r.nudge(5 * time.Millisecond)
	ctx, cancel := context.WithCancel(context.Background())
	var err error
	var resp proto.Message
	done := make(chan struct{})
	t0 := time.Now()
	go func() {
		defer close(done)
		resp, err = r.W.Call(ctx, "Pull", &pubsubpb.PullRequest{Subscription: name, MaxMessages: 10})
	}()
	r.Sim.Settle() // the pull is now blocked in its server-side wait
	time.Sleep(time.Duration(1+r.T.Intn(20)) * time.Second)
	r.Sim.Settle()
	select {
	case <-done:
		// it returned by itself (should not happen: nothing is deliverable)
	default:
	}
	cancel()
	<-done
	r.Sim.Settle()
	t1 := time.Now()
	r.ev("Pull %s (waiting) cancelled by the client after %v -> %v", name, t1.Sub(t0), code(err))
	r.cev("PullCancelled %s", name)
	if p, ok := isPanic(err); ok {
		return viol("C16", "panic:Pull", "%v", p.Val)
	}
	if err == nil {
		// it returned on its own (something the model only knew as "maybe" was deliverable,
		// or the server-side wait ended): an ordinary pull
		recv := toRecv(resp.(*pubsubpb.PullResponse).ReceivedMessages)
		for _, x := range recv {
			r.ackPool = append(r.ackPool, x.AckID)
		}
		r.ev("   (returned %d messages on its own)", len(recv))
		return r.M.Pull(ms, 10, recv, t0, t1)
	}
	r.M.probe("waiting_pull_cancelled")
	ms.ActLo, ms.ActHi = t0, t1
	return nil
}

// doWaitDelete: a waiting pull is parked on a subscription that has a delivery coming due
// within the pull's wait limit; the subscription is deleted (and its name possibly re-used)
// while the pull waits. Whatever the pull then ends with, it must not be messages: a deleted
// subscription has nothing outstanding (C02), its name resolves to nothing or to another
// subscription.
func (r *Run) doWaitDelete(i int) *Violation {
	name := subName(i)
	if r.pendingFault != "" || r.M.LiveSub(name) == nil {
		return nil
	}
	find := func() (*MSub, *ED) {
		ms := r.M.LiveSub(name)
		if ms == nil {
			return nil, nil
		}
		now := time.Now()
		var target *ED
		for _, e := range ms.EDs {
			if !(e.State == stOut || e.Fuzzy) || !e.mayAlive(now) {
				continue
			}
			if !e.LeaseLo.After(now.Add(time.Second)) {
				return ms, nil // deliverable (almost) now: the pull would not park
			}
			if e.State == stOut && !e.Fuzzy && e.LeaseHi.Before(now.Add(45*time.Second)) && e.mustAlive(e.LeaseHi.Add(2*time.Second)) {
				if target == nil || e.LeaseHi.Before(target.LeaseHi) {
					target = e
				}
			}
		}
		return ms, target
	}
	ms, target := find()
	if ms != nil && target == nil {
		// take what is deliverable now, which leases it for the back-off
		if v := r.doPull(i, false); v != nil {
			return v
		}
		ms, target = find()
	}
	if ms == nil || target == nil {
		return nil
	}
	due := target.LeaseHi
	r.nudge(5 * time.Millisecond)
	ctx, cancel := context.WithCancel(context.Background())
	defer cancel()
	var err error
	var resp proto.Message
	done := make(chan struct{})
	t0 := time.Now()
	go func() {
		defer close(done)
		resp, err = r.W.Call(ctx, "Pull", &pubsubpb.PullRequest{Subscription: name, MaxMessages: 10})
	}()
	r.Sim.Settle() // parked in its server-side wait, or finished
	finished := func() bool {
		select {
		case <-done:
			return true
		default:
			return false
		}
	}
	asOrdinary := func() *Violation {
		t1 := time.Now()
		if p, ok := isPanic(err); ok {
			return viol("C16", "panic:Pull", "%v", p.Val)
		}
		if err != nil {
			r.ev("Pull %s (waiting) -> %v", name, code(err))
			ms.ActLo, ms.ActHi = t0, t1
			return nil
		}
		recv := toRecv(resp.(*pubsubpb.PullResponse).ReceivedMessages)
		for _, x := range recv {
			r.ackPool = append(r.ackPool, x.AckID)
		}
		r.ev("Pull %s (waiting) returned %d messages on its own", name, len(recv))
		return r.M.Pull(ms, 10, recv, t0, t1)
	}
	if finished() {
		return asOrdinary()
	}
	if v := r.doDeleteSub(i); v != nil {
		cancel()
		<-done
		return v
	}
	if r.M.LiveSub(name) != nil {
		// the delete failed (injected fault): end the pull like a cancelled wait
		r.Sim.Settle()
		if !finished() {
			cancel()
		}
		<-done
		r.Sim.Settle()
		return asOrdinary()
	}
	r.Sim.Settle()
	if !finished() && r.T.Bool(50) {
		// the name is re-used while the old pull is still waiting
		if v := r.doCreateSub(i, r.T.Intn(r.nTopics)); v != nil {
			cancel()
			<-done
			return v
		}
		r.Sim.Settle()
	}
	if d := time.Until(due.Add(2 * time.Second)); d > 0 && !finished() {
		time.Sleep(d)
		r.Sim.Settle()
	}
	stillWaiting := !finished()
	if stillWaiting {
		cancel()
	}
	<-done
	r.Sim.Settle()
	r.M.probe("waiting_pull_subscription_deleted")
	r.ev("Pull %s (waiting, subscription deleted meanwhile) ended after %v -> %v (still waiting: %v)", name, time.Since(t0), code(err), stillWaiting)
	r.cev("PullDeleted %s", name)
	if p, ok := isPanic(err); ok {
		return viol("C16", "panic:Pull", "%v", p.Val)
	}
	if err == nil {
		if recv := toRecv(resp.(*pubsubpb.PullResponse).ReceivedMessages); len(recv) > 0 {
			return viol("C02", "served_after_delete", "a pull waiting on %s when it was deleted returned %d message(s) afterwards (first: message id %s, ack id %s): a deleted subscription has nothing outstanding", name, len(recv), recv[0].MsgID, recv[0].AckID)
		}
	}
	return nil
}

// doWaitExpire: a message's retention ends while a pull is waiting for that message's lease
// to run out. The clock is moved to shortly before the retention deadline of an outstanding
// delivery, a pull takes it (legal: still retained) which leases it beyond the deadline, and
// a waiting pull is parked over both the deadline and the end of the lease. The waiting pull
// is watched in slices of virtual time: a response that arrives after it was last seen
// parked was computed after that instant, which is what lets "never delivered after its
// retention" be decided for a request that started before the deadline.
func (r *Run) doWaitExpire(i int) *Violation {
	name := subName(i)
	ms := r.M.LiveSub(name)
	if r.pendingFault != "" || ms == nil || ms.Cfg.Ordered || ms.Cfg.fullDL() {
		return nil
	}
	now := time.Now()
	var target *ED
	var b time.Duration
	for _, e := range ms.EDs {
		if e.State != stOut || e.Fuzzy || e.RetHi.Sub(e.RetLo) > time.Second {
			continue
		}
		eb := nominalBackoff(&ms.Cfg, e.Seen+e.SeenUnc)
		if eb < 2*time.Second || eb > 45*time.Second || nominalBackoff(&ms.Cfg, e.Seen) != eb {
			continue
		}
		at := e.RetLo.Add(-eb / 2)
		if !at.After(now.Add(time.Second)) || !e.LeaseHi.Before(at.Add(-time.Second)) {
			continue
		}
		if target == nil || e.RetLo.Before(target.RetLo) {
			target, b = e, eb
		}
	}
	if target == nil {
		return nil
	}
	time.Sleep(time.Until(target.RetLo.Add(-b / 2)))
	r.Sim.Settle()
	r.ev("advance to %v before the retention deadline of %v", b/2, target)
	seen := target.Seen
	if v := r.doPull(i, false); v != nil {
		return v
	}
	if ms = r.M.LiveSub(name); ms == nil || target.State != stOut || target.Fuzzy || target.Seen != seen+1 || !target.LeaseLo.After(target.RetHi.Add(time.Second)) {
		return nil // not taken by that pull (small max, fault, ...): no scenario
	}
	until := target.LeaseHi.Add(3 * time.Second)
	ctx, cancel := context.WithCancel(context.Background())
	defer cancel()
	ctx, mark := WithBeginMark(ctx)
	var err error
	var resp proto.Message
	done := make(chan struct{})
	t0 := time.Now()
	go func() {
		defer close(done)
		resp, err = r.W.Call(ctx, "Pull", &pubsubpb.PullRequest{Subscription: name, MaxMessages: 10})
	}()
	r.Sim.Settle()
	finished := func() bool {
		select {
		case <-done:
			return true
		default:
			return false
		}
	}
	lastParked := t0
	for !finished() && time.Now().Before(until) {
		lastParked = time.Now()
		time.Sleep(500 * time.Millisecond)
		r.Sim.Settle()
	}
	cancelled := false
	if !finished() {
		cancelled = true
		cancel()
	}
	<-done
	r.Sim.Settle()
	t1 := time.Now()
	r.M.probe("waiting_pull_over_retention_deadline")
	if p, ok := isPanic(err); ok {
		return viol("C16", "panic:Pull", "%v", p.Val)
	}
	if err != nil {
		r.ev("Pull %s (waiting over a retention deadline) after %v -> %v (cancelled by the client: %v)", name, t1.Sub(t0), code(err), cancelled)
		r.cev("PullOverDeadline %s %v", name, code(err))
		if ms = r.M.LiveSub(name); ms != nil {
			ms.ActLo, ms.ActHi = t0, t1
		}
		return nil
	}
	recv := toRecv(resp.(*pubsubpb.PullResponse).ReceivedMessages)
	for _, x := range recv {
		r.ackPool = append(r.ackPool, x.AckID)
	}
	r.ev("Pull %s (waiting over a retention deadline) returned %d messages after %v (last seen parked at +%v, last transaction begun at +%v)", name, len(recv), t1.Sub(t0), lastParked.Sub(t0), mark.Last.Sub(t0))
	r.cev("PullOverDeadline %s %d", name, len(recv))
	if ms = r.M.LiveSub(name); ms == nil {
		return nil
	}
	if len(recv) > 0 {
		// a non-empty response comes from the request's last transaction, which began after
		// the pull was last seen parked and not before the driver saw that transaction begin
		if mark.N > 0 && mark.Last.After(lastParked) {
			lastParked = mark.Last
		}
		return r.M.Pull(ms, 10, recv, lastParked, t1)
	}
	return r.M.Pull(ms, 10, recv, t0, t1)
}

// doSnapCombo: the pattern snapshots exist for, in one step: pull on a subscription,
// acknowledge out of order (everything but the oldest received message), snapshot it, then
// seek a sibling subscription of the topic (or the same one) to that snapshot.
func (r *Run) doSnapCombo(i int) *Violation {
	t := r.T
	a := r.M.LiveSub(subName(i))
	if a == nil {
		return nil
	}
	if v := r.doPull(i, false); v != nil {
		return v
	}
	if a = r.M.LiveSub(subName(i)); a == nil {
		return nil
	}
	var out []*ED
	for _, e := range a.EDs {
		if e.State == stOut && !e.Fuzzy && !e.DLMaybe && e.AckID != "" {
			out = append(out, e)
		}
	}
	if len(out) >= 2 {
		sort.Slice(out, func(x, y int) bool { return out[x].Msg.Seq < out[y].Msg.Seq })
		var ids []string
		for _, e := range out[1:] {
			if t.Bool(80) {
				ids = append(ids, e.AckID)
			}
		}
		if len(ids) > 0 {
			if v := r.ackIDs(a.Name, ids); v != nil {
				return v
			}
		}
	}
	ni := t.Intn(3)
	if v := r.doSnapshot(ni, i); v != nil {
		return v
	}
	r.M.probe("snap_combo")
	target := i
	var sib []int
	for j := 0; j < r.nSubs; j++ {
		if b := r.M.LiveSub(subName(j)); b != nil && j != i && a.Topic == b.Topic {
			sib = append(sib, j)
		}
	}
	if len(sib) > 0 && t.Bool(70) {
		target = sib[t.Intn(len(sib))]
	}
	if t.Bool(30) {
		// let something happen in between
		for ti := 0; ti < r.nTopics; ti++ {
			if topicName(ti) == a.Topic.Name {
				if v := r.doPublish(ti); v != nil {
					return v
				}
			}
		}
	}
	return r.doSeekSnap(target, ni)
}

// dlAllowed (noCycle runs): a dead-letter policy may only point from a non-sink topic to the
// one sink topic (the highest-numbered one), subscriptions on the sink never have a policy,
// and at most one subscription per source topic has one: no message can then reach a
// subscription twice through forwarding.
func (r *Run) dlAllowed(sub, ownTopic string, dt *MTopic) bool {
	if r.nTopics < 2 {
		return false
	}
	sink := topicName(r.nTopics - 1)
	if dt.Name != sink || ownTopic == sink {
		return false
	}
	own := r.M.LiveTopic(ownTopic)
	for _, o := range r.M.AllSubs {
		if o.Live && o.Name != sub && own != nil && o.Topic == own && o.Cfg.fullDL() {
			return false
		}
	}
	return true
}
