// instrument rewrites a copy of faults/set.go: before every statement of every *Set method
// that takes no lock itself a call verifYield("<method>:<line>") is inserted; methods that
// lock get one yield at entry (before the lock). Only adds statements.
package main

import (
	"bytes"
	"fmt"
	"go/ast"
	"go/format"
	"go/parser"
	"go/token"
	"os"
)

func locks(body *ast.BlockStmt) bool {
	found := false
	ast.Inspect(body, func(n ast.Node) bool {
		if c, ok := n.(*ast.CallExpr); ok {
			if s, ok := c.Fun.(*ast.SelectorExpr); ok {
				if s.Sel.Name == "Lock" || s.Sel.Name == "RLock" {
					found = true
				}
			}
		}
		return true
	})
	return found
}

func yieldStmt(name string, line int) ast.Stmt {
	return &ast.ExprStmt{X: &ast.CallExpr{Fun: ast.NewIdent("verifYield"), Args: []ast.Expr{&ast.BasicLit{Kind: token.STRING, Value: fmt.Sprintf("%q", fmt.Sprintf("%s:%d", name, line))}}}}
}

var fset = token.NewFileSet()
var count int

func instrBlock(name string, b *ast.BlockStmt) {
	if b == nil {
		return
	}
	var out []ast.Stmt
	for _, st := range b.List {
		out = append(out, yieldStmt(name, fset.Position(st.Pos()).Line))
		count++
		switch x := st.(type) {
		case *ast.ForStmt:
			instrBlock(name, x.Body)
		case *ast.RangeStmt:
			instrBlock(name, x.Body)
		case *ast.IfStmt:
			for i := x; i != nil; {
				instrBlock(name, i.Body)
				switch e := i.Else.(type) {
				case *ast.IfStmt:
					i = e
				case *ast.BlockStmt:
					instrBlock(name, e)
					i = nil
				default:
					i = nil
				}
			}
		case *ast.BlockStmt:
			instrBlock(name, x)
		case *ast.SwitchStmt:
			for _, c := range x.Body.List {
				cc := c.(*ast.CaseClause)
				bb := &ast.BlockStmt{List: cc.Body}
				instrBlock(name, bb)
				cc.Body = bb.List
			}
		}
		out = append(out, st)
	}
	b.List = out
}

// lockCall classifies a top-level statement: "lock", "unlock", "deferunlock" or "".
func lockCall(st ast.Stmt) string {
	sel := func(e ast.Expr) string {
		if c, ok := e.(*ast.CallExpr); ok {
			if s, ok := c.Fun.(*ast.SelectorExpr); ok {
				return s.Sel.Name
			}
		}
		return ""
	}
	switch x := st.(type) {
	case *ast.ExprStmt:
		switch sel(x.X) {
		case "Lock", "RLock":
			return "lock"
		case "Unlock", "RUnlock":
			return "unlock"
		}
	case *ast.DeferStmt:
		switch sel(x.Call) {
		case "Unlock", "RUnlock":
			return "deferunlock"
		}
	}
	return ""
}

func mentionsLock(n ast.Node) bool {
	found := false
	ast.Inspect(n, func(n ast.Node) bool {
		if c, ok := n.(*ast.CallExpr); ok {
			if s, ok := c.Fun.(*ast.SelectorExpr); ok {
				switch s.Sel.Name {
				case "Lock", "RLock", "Unlock", "RUnlock":
					found = true
				}
			}
		}
		return true
	})
	return found
}

// instrLocking instruments a method that takes a lock at its top level: one yield at entry,
// and statement-level yields in every top-level region where no lock is held (before the
// lock, and after an explicit, non-deferred unlock), including the bodies of loops and
// branches there as long as they do not lock themselves.
func instrLocking(name string, list []ast.Stmt) []ast.Stmt {
	out := []ast.Stmt{yieldStmt(name, 0)}
	count++
	held, forever := false, false
	for i, st := range list {
		switch lockCall(st) {
		case "lock":
			held = true
		case "unlock":
			out = append(out, st)
			held = false
			continue
		case "deferunlock":
			forever = true
		default:
			if !held && !forever && i > 0 && !mentionsLock(st) {
				out = append(out, yieldStmt(name, fset.Position(st.Pos()).Line))
				count++
				wrap := &ast.BlockStmt{List: []ast.Stmt{st}}
				switch st.(type) {
				case *ast.ForStmt, *ast.RangeStmt, *ast.IfStmt, *ast.SwitchStmt, *ast.BlockStmt:
					// reuse the recursive descent (it also prepends one yield to the wrapper)
					instrBlock(name, wrap)
					out = append(out, wrap.List[1:]...)
					continue
				}
			} else if !held && !forever && i > 0 {
				// an unlocked region whose statement takes locks inside (a loop that locks per
				// iteration): yield before it, and treat its body as a locking list of its own
				out = append(out, yieldStmt(name, fset.Position(st.Pos()).Line))
				count++
				switch x := st.(type) {
				case *ast.ForStmt:
					x.Body.List = instrLocking(name, x.Body.List)
				case *ast.RangeStmt:
					x.Body.List = instrLocking(name, x.Body.List)
				case *ast.BlockStmt:
					x.List = instrLocking(name, x.List)
				case *ast.IfStmt:
					x.Body.List = instrLocking(name, x.Body.List)
					if eb, ok := x.Else.(*ast.BlockStmt); ok {
						eb.List = instrLocking(name, eb.List)
					}
				}
			}
		}
		out = append(out, st)
	}
	return out
}

// pushSelect rewrites (*httpPushStreamConn).Receive: in front of its select over the three
// outcome queues it inserts non-blocking polls of the queues in an order returned by
// verifSelectOrder(len(fast), len(slow), len(nack)) (empty when the hook is unset, so the
// shipped behaviour is unchanged). Go's select picks at random among ready cases; the
// pre-poll lets the simulator's tape pick instead, so both orders are explored and replayed.
func pushSelect(in, out string) {
	f, err := parser.ParseFile(fset, in, nil, parser.ParseComments)
	if err != nil {
		fmt.Fprintln(os.Stderr, err)
		os.Exit(2)
	}
	done := false
	for _, d := range f.Decls {
		fd, ok := d.(*ast.FuncDecl)
		if !ok || fd.Recv == nil || fd.Body == nil || fd.Name.Name != "Receive" {
			continue
		}
		for i, st := range fd.Body.List {
			sel, ok := st.(*ast.SelectStmt)
			if !ok {
				continue
			}
			type qc struct {
				name   string
				clause *ast.CommClause
			}
			var qs []qc
			for _, c := range sel.Body.List {
				cc := c.(*ast.CommClause)
				as, ok := cc.Comm.(*ast.AssignStmt)
				if !ok || len(as.Rhs) != 1 {
					continue
				}
				ue, ok := as.Rhs[0].(*ast.UnaryExpr)
				if !ok || ue.Op != token.ARROW {
					continue
				}
				se, ok := ue.X.(*ast.SelectorExpr)
				if !ok {
					continue
				}
				qs = append(qs, qc{se.Sel.Name, cc})
			}
			if len(qs) != 3 {
				continue
			}
			// for _, k := range verifSelectOrder(len(c.q0), len(c.q1), len(c.q2)) { switch k { case i: select { case id := <-c.qi: BODY; default: } } }
			recv := fd.Recv.List[0].Names[0].Name
			var args []ast.Expr
			var cases []ast.Stmt
			for k, q := range qs {
				args = append(args, &ast.CallExpr{Fun: ast.NewIdent("len"), Args: []ast.Expr{&ast.SelectorExpr{X: ast.NewIdent(recv), Sel: ast.NewIdent(q.name)}}})
				inner := &ast.SelectStmt{Body: &ast.BlockStmt{List: []ast.Stmt{
					&ast.CommClause{Comm: q.clause.Comm, Body: q.clause.Body},
					&ast.CommClause{Comm: nil, Body: nil},
				}}}
				cases = append(cases, &ast.CaseClause{List: []ast.Expr{&ast.BasicLit{Kind: token.INT, Value: fmt.Sprint(k)}}, Body: []ast.Stmt{inner}})
			}
			loop := &ast.RangeStmt{Key: ast.NewIdent("_"), Value: ast.NewIdent("verifK"), Tok: token.DEFINE,
				X:    &ast.CallExpr{Fun: ast.NewIdent("verifSelectOrder"), Args: args},
				Body: &ast.BlockStmt{List: []ast.Stmt{&ast.SwitchStmt{Tag: ast.NewIdent("verifK"), Body: &ast.BlockStmt{List: cases}}}}}
			nl := append([]ast.Stmt{}, fd.Body.List[:i]...)
			nl = append(nl, loop)
			nl = append(nl, fd.Body.List[i:]...)
			fd.Body.List = nl
			done = true
			break
		}
	}
	if !done {
		fmt.Fprintln(os.Stderr, "Receive select over three queues not found")
		os.Exit(2)
	}
	var buf bytes.Buffer
	f.Comments = nil
	if err := format.Node(&buf, fset, f); err != nil {
		fmt.Fprintln(os.Stderr, err)
		os.Exit(2)
	}
	if err := os.WriteFile(out, buf.Bytes(), 0o644); err != nil {
		fmt.Fprintln(os.Stderr, err)
		os.Exit(2)
	}
	fmt.Println("rewrote Receive select")
}

func main() {
	if len(os.Args) == 4 && os.Args[1] == "-pushselect" {
		pushSelect(os.Args[2], os.Args[3])
		return
	}
	if len(os.Args) != 3 {
		fmt.Fprintln(os.Stderr, "usage: instrument <in.go> <out.go>")
		os.Exit(2)
	}
	f, err := parser.ParseFile(fset, os.Args[1], nil, parser.ParseComments)
	if err != nil {
		fmt.Fprintln(os.Stderr, err)
		os.Exit(2)
	}
	lockFree := 0
	for _, d := range f.Decls {
		fd, ok := d.(*ast.FuncDecl)
		if !ok || fd.Recv == nil || fd.Body == nil || len(fd.Recv.List) != 1 {
			continue
		}
		st, ok := fd.Recv.List[0].Type.(*ast.StarExpr)
		if !ok {
			continue
		}
		if id, ok := st.X.(*ast.Ident); !ok || id.Name != "Set" {
			continue
		}
		switch fd.Name.Name {
		case "collectors", "Register", "MustRegister":
			continue
		}
		if locks(fd.Body) {
			fd.Body.List = instrLocking(fd.Name.Name, fd.Body.List)
		} else {
			lockFree++
			instrBlock(fd.Name.Name, fd.Body)
		}
	}
	if count == 0 {
		fmt.Fprintln(os.Stderr, "no *Set method qualified for instrumentation")
		os.Exit(2)
	}
	var buf bytes.Buffer
	// comments are dropped on purpose: positions of inserted nodes would scramble them
	f.Comments = nil
	if err := format.Node(&buf, fset, f); err != nil {
		fmt.Fprintln(os.Stderr, err)
		os.Exit(2)
	}
	if err := os.WriteFile(os.Args[2], buf.Bytes(), 0o644); err != nil {
		fmt.Fprintln(os.Stderr, err)
		os.Exit(2)
	}
	fmt.Printf("instrumented %d yield points (%d lock-free methods)\n", count, lockFree)
}
