// instrument rewrites a copy of faults/set.go: before every statement of every *Set method
// that takes no lock itself a call verifYield("<method>:<line>") is inserted; methods that
// lock get one yield at entry (before the lock). Only adds statements.
package main

import (
	"bytes"
	"fmt"
	"go/ast"
	"go/format"
	"go/parser"
	"go/token"
	"os"
)

func locks(body *ast.BlockStmt) bool {
	found := false
	ast.Inspect(body, func(n ast.Node) bool {
		if c, ok := n.(*ast.CallExpr); ok {
			if s, ok := c.Fun.(*ast.SelectorExpr); ok {
				if s.Sel.Name == "Lock" || s.Sel.Name == "RLock" {
					found = true
				}
			}
		}
		return true
	})
	return found
}

func yieldStmt(name string, line int) ast.Stmt {
	return &ast.ExprStmt{X: &ast.CallExpr{Fun: ast.NewIdent("verifYield"), Args: []ast.Expr{&ast.BasicLit{Kind: token.STRING, Value: fmt.Sprintf("%q", fmt.Sprintf("%s:%d", name, line))}}}}
}

var fset = token.NewFileSet()
var count int

func instrBlock(name string, b *ast.BlockStmt) {
	if b == nil {
		return
	}
	var out []ast.Stmt
	for _, st := range b.List {
		out = append(out, yieldStmt(name, fset.Position(st.Pos()).Line))
		count++
		switch x := st.(type) {
		case *ast.ForStmt:
			instrBlock(name, x.Body)
		case *ast.RangeStmt:
			instrBlock(name, x.Body)
		case *ast.IfStmt:
			for i := x; i != nil; {
				instrBlock(name, i.Body)
				switch e := i.Else.(type) {
				case *ast.IfStmt:
					i = e
				case *ast.BlockStmt:
					instrBlock(name, e)
					i = nil
				default:
					i = nil
				}
			}
		case *ast.BlockStmt:
			instrBlock(name, x)
		case *ast.SwitchStmt:
			for _, c := range x.Body.List {
				cc := c.(*ast.CaseClause)
				bb := &ast.BlockStmt{List: cc.Body}
				instrBlock(name, bb)
				cc.Body = bb.List
			}
		}
		out = append(out, st)
	}
	b.List = out
}

func main() {
	if len(os.Args) != 3 {
		fmt.Fprintln(os.Stderr, "usage: instrument <in.go> <out.go>")
		os.Exit(2)
	}
	f, err := parser.ParseFile(fset, os.Args[1], nil, parser.ParseComments)
	if err != nil {
		fmt.Fprintln(os.Stderr, err)
		os.Exit(2)
	}
	lockFree := 0
	for _, d := range f.Decls {
		fd, ok := d.(*ast.FuncDecl)
		if !ok || fd.Recv == nil || fd.Body == nil || len(fd.Recv.List) != 1 {
			continue
		}
		st, ok := fd.Recv.List[0].Type.(*ast.StarExpr)
		if !ok {
			continue
		}
		if id, ok := st.X.(*ast.Ident); !ok || id.Name != "Set" {
			continue
		}
		switch fd.Name.Name {
		case "collectors", "Register", "MustRegister":
			continue
		}
		if locks(fd.Body) {
			fd.Body.List = append([]ast.Stmt{yieldStmt(fd.Name.Name, 0)}, fd.Body.List...)
			count++
		} else {
			lockFree++
			instrBlock(fd.Name.Name, fd.Body)
		}
	}
	if count == 0 {
		fmt.Fprintln(os.Stderr, "no *Set method qualified for instrumentation")
		os.Exit(2)
	}
	var buf bytes.Buffer
	// comments are dropped on purpose: positions of inserted nodes would scramble them
	f.Comments = nil
	if err := format.Node(&buf, fset, f); err != nil {
		fmt.Fprintln(os.Stderr, err)
		os.Exit(2)
	}
	if err := os.WriteFile(os.Args[2], buf.Bytes(), 0o644); err != nil {
		fmt.Fprintln(os.Stderr, err)
		os.Exit(2)
	}
	fmt.Printf("instrumented %d yield points (%d lock-free methods)\n", count, lockFree)
}
