package sim

// wake (C10) and pullers (C04 b): a sequential, model-checked setup history followed by a
// concurrent phase in which waiting pullers and writers are interleaved by the tape at
// transaction boundaries.

import (
	"context"
	"fmt"
	"sort"
	"strings"
	"testing"
	"time"

	"github.com/google/uuid"
	"google.golang.org/grpc/codes"

	"go.6river.tech/mmmbbb/actions"
	"go.6river.tech/mmmbbb/grpc/pubsubpb"
)

func newSetupRun(tape *Tape, w *World, variant string) *Run {
	r := &Run{T: tape, W: w, M: NewModel(), Sim: S, Variant: variant, Stats: map[string]int{}, Hashes: map[uint64]bool{}}
	r.hintWriter = -1
	r.M.KnownSigs = knownSigs
	r.configure()
	r.faultsOn, r.jobsOn = false, false
	for _, k := range []int{opFault, opRestart, opJob, opExpirySweep, opSetDelay, opDeleteTopic, opDeleteSub} {
		r.opWeights[k] = 0
	}
	r.opWeights[opAdvance] = 1
	return r
}

func liveSubs(m *Model) []*MSub {
	var out []*MSub
	for _, s := range m.AllSubs {
		if s.Live {
			out = append(out, s)
		}
	}
	return out
}

type wakeWaiter struct {
	sub    *MSub
	task   *ctask
	t0, t1 time.Time
	resp   []RecvMsg
	err    error
}

func runWake(t *testing.T, tape *Tape, w *World, variant string, steps int, out *runOutcome) {
	r := newSetupRun(tape, w, "wake")
	out.stats = r.Stats
	defer func() { out.trace, out.probes, out.hashes = r.Trace, r.M.Probes, r.Hashes }()
	scenario := tape.Intn(11)
	if scenario >= 4 {
		if v := r.cannedWake(scenario); v != nil {
			out.v = v
			return
		}
	} else {
		if v := r.setup(); v != nil {
			out.v = v
			return
		}
		n := 6 + tape.Intn(20)
		for i := 0; i < n; i++ {
			if v := r.step(); v != nil {
				out.v = v
				return
			}
		}
	}
	subs := liveSubs(r.M)
	if len(subs) == 0 {
		return
	}
	// ---- pre-phase: shape the state so that waiters really wait
	tape.Frame()
	pre := tape.Intn(5)
	if scenario >= 4 {
		pre = 0
	}
	switch pre {
	case 0:
	case 1, 2: // lease everything (nothing deliverable, ack ids outstanding)
		for _, s := range subs {
			if v := r.pullSub(s, false); v != nil {
				out.v = v
				return
			}
		}
	case 3: // lease and acknowledge everything (empty backlog)
		for _, s := range subs {
			if v := r.pullSub(s, true); v != nil {
				out.v = v
				return
			}
		}
	case 4: // let leases lapse: dead-letter candidates become due
		for _, s := range subs {
			if v := r.pullSub(s, false); v != nil {
				out.v = v
				return
			}
		}
		time.Sleep(time.Duration(125+tape.Intn(60)) * time.Minute)
		S.Settle()
		r.ev("advance past every lease")
		for _, s := range subs {
			if s.Cfg.fullDL() {
				continue // leave dead-letter candidates for the writers
			}
			if v := r.pullSub(s, false); v != nil {
				out.v = v
				return
			}
		}
	}
	out.header = len(tape.marks)
	tape.Frame()
	r.nudge(50 * time.Millisecond)
	r.ev("---- concurrent phase")
	r.M.Concurrent = true
	S.on = true
	c := &conc{t: tape}
	// ---- waiters: unary pulls that wait server-side (59 s) on 1..3 subscriptions
	nw := 1 + tape.Intn(3)
	var waiters []*wakeWaiter
	for i := 0; i < nw; i++ {
		ww := &wakeWaiter{sub: subs[tape.Intn(len(subs))]}
		if i == 0 && r.hintWaitSub != "" && tape.Bool(80) {
			if hs := r.M.LiveSub(r.hintWaitSub); hs != nil {
				ww.sub = hs
			}
		}
		id := fmt.Sprintf("waiter%d", i)
		ww.task = c.spawn(id, func(ctx context.Context) {
			ww.t0 = time.Now()
			resp, err := w.Call(ctx, "Pull", &pubsubpb.PullRequest{Subscription: ww.sub.Name, MaxMessages: 1000})
			ww.t1 = time.Now()
			ww.err = err
			if err == nil {
				ww.resp = toRecv(resp.(*pubsubpb.PullResponse).ReceivedMessages)
			}
		})
		waiters = append(waiters, ww)
		r.ev("%s: waiting Pull on %s", id, ww.sub.Name)
	}
	// ---- in a quarter of the runs: another consumer of the first waiter's subscription, a
	// StreamingPull that is opened and given up by its client while the waiters are parked and
	// nothing is deliverable (so it takes nothing with it). Its end must not take anybody
	// else's wake-up with it: the writers come afterwards.
	if tape.Bool(25) {
		sub := waiters[0].sub
		quiet := true
		now := time.Now()
		for _, e := range sub.EDs {
			if (e.State == stOut || e.Fuzzy) && e.mayAlive(now) && e.mayDue(now.Add(2*time.Second)) {
				quiet = false
			}
		}
		if _, okq := c.run(3000, nil); okq && quiet && !waiters[0].task.done {
			ctxS, cancelS := context.WithCancel(context.Background())
			in := make(chan *pubsubpb.StreamingPullRequest, 2)
			in <- &pubsubpb.StreamingPullRequest{Subscription: sub.Name, StreamAckDeadlineSeconds: 10, MaxOutstandingMessages: 1000, ClientId: "bystander"}
			got := 0
			bt := c.spawn("bystander", func(ctx context.Context) {
				fs := &fakeStream{ctx: ctxS, in: in, sent: func(resp *pubsubpb.StreamingPullResponse) { got += len(resp.ReceivedMessages) }}
				err := w.StreamingPull(fs)
				r.ev("bystander stream on %s ended: %v", sub.Name, code(err))
			})
			c.run(3000, nil)
			cancelS()
			S.Settle()
			c.run(3000, nil)
			if !bt.done || got > 0 {
				// (it received something after all, or did not end: not the scenario)
				r.Stats["bystander_stream_void"]++
				c.finish()
				r.M.Concurrent = false
				return
			}
			r.Stats["bystander_stream_ended"]++
		}
	}
	// ---- writers: one operation each that may make something deliverable
	nwr := 1 + tape.Intn(3)
	type wres struct {
		apply func()
		desc  string
	}
	type doneOp struct {
		seq   int
		apply func() *Violation
	}
	var pendingOps []doneOp
	usedKey := map[string]bool{}
	// the first writer's client may go away exactly when its transaction commits: the commit
	// goes through and must wake the waiters like any other (the notification runs in a commit
	// hook, under the request's context)
	voidRun := false
	cancelAtCommit := func(id string, ctx context.Context, faulted bool) (context.Context, func() bool) {
		if !faulted {
			return ctx, func() bool { return false }
		}
		before := S.TaskCommit(id)
		cctx, cancel := context.WithCancel(ctx)
		S.Arm(FaultCancelAtCommit, 1, cancel)
		r.Stats["armed_"+FaultCancelAtCommit.String()]++
		return cctx, func() bool {
			S.Disarm()
			return S.TaskCommit(id) != before
		}
	}
	for i := 0; i < nwr; i++ {
		id := fmt.Sprintf("writer%d", i)
		faulted := i == 0 && tape.Bool(20)
		kind := tape.Intn(8)
		if kind >= 6 {
			kind = []int{2, 7}[kind-6]
		}
		if actions.VerifStreamAckNack == nil && kind == 7 {
			kind = 2
		}
		if i == 0 && r.hintWriter >= 0 && tape.Bool(80) {
			kind = r.hintWriter
		}
		if kind == 6 && (r.M.Snaps[snapName(0)] == nil || r.M.LiveSub(subName(0)) == nil) {
			kind = 3
		}
		switch kind {
		case 0, 1: // publish
			tn := topicName(tape.Intn(r.nTopics))
			attrs := r.genAttrs()
			key := keyPalette[tape.Intn(len(keyPalette))]
			if usedKey[key] {
				key = "" // concurrent same-key publishes would make the publish order ambiguous
			}
			usedKey[key] = true
			data := r.genPayload(1000 + i)
			c.spawn(id, func(ctx context.Context) {
				ctx, committed := cancelAtCommit(id, ctx, faulted)
				t0 := time.Now()
				resp, err := w.Call(ctx, "Publish", &pubsubpb.PublishRequest{Topic: tn, Messages: []*pubsubpb.PubsubMessage{{Data: data, Attributes: attrs, OrderingKey: key}}})
				t1 := time.Now()
				r.ev("%s Publish %s key=%q attrs=%v -> %v", id, tn, key, attrs, code(err))
				if did := committed(); err != nil && did {
					voidRun = true // committed, but the ids went down with the cancelled request
				}
				if err == nil {
					mt := r.M.LiveTopic(tn)
					mid, v := oneMessageID(resp)
					pendingOps = append(pendingOps, doneOp{S.TaskCommit(id), func() *Violation {
						if v != nil {
							return v
						}
						r.M.Publish(mt, mid, data, attrs, key, t0, t1)
						return nil
					}})
				}
			})
		case 2: // zero-deadline nack of ids spanning subscriptions, any order
			var ids []string
			for id2, e := range r.M.AckIDs {
				if e.Sub.Live && e.State == stOut {
					ids = append(ids, id2)
				}
			}
			sort.Strings(ids)
			for j := len(ids) - 1; j > 0; j-- {
				k := tape.Intn(j + 1)
				ids[j], ids[k] = ids[k], ids[j]
			}
			if len(ids) > 6 {
				ids = ids[:6]
			}
			if len(ids) == 0 {
				continue
			}
			named := r.M.AckIDs[ids[0]].Sub.Name
			c.spawn(id, func(ctx context.Context) {
				ctx, committed := cancelAtCommit(id, ctx, faulted)
				t0 := time.Now()
				_, err := w.Call(ctx, "ModifyAckDeadline", &pubsubpb.ModifyAckDeadlineRequest{Subscription: named, AckIds: ids, AckDeadlineSeconds: 0})
				t1 := time.Now()
				r.ev("%s ModifyAckDeadline(0) %s -> %v", id, r.descIDs(ids), code(err))
				if did := committed(); err == nil || did {
					pendingOps = append(pendingOps, doneOp{S.TaskCommit(id), func() *Violation { r.M.ModAck(nil, ids, 0, t0, t1); return nil }})
				}
			})
		case 3: // ack (may release an ordered successor)
			var ids []string
			for id2, e := range r.M.AckIDs {
				if e.Sub.Live && e.State == stOut {
					ids = append(ids, id2)
				}
			}
			sort.Strings(ids)
			if len(ids) == 0 {
				continue
			}
			ids = []string{ids[tape.Intn(len(ids))]}
			named := r.M.AckIDs[ids[0]].Sub.Name
			c.spawn(id, func(ctx context.Context) {
				t0 := time.Now()
				_, err := w.Call(ctx, "Acknowledge", &pubsubpb.AcknowledgeRequest{Subscription: named, AckIds: ids})
				t1 := time.Now()
				r.ev("%s Acknowledge %s -> %v", id, r.descIDs(ids), code(err))
				if err == nil {
					pendingOps = append(pendingOps, doneOp{S.TaskCommit(id), func() *Violation { r.M.Ack(nil, ids, t0, t1); return nil }})
				}
			})
		case 4: // seek to the past: re-opens everything retained
			s := subs[tape.Intn(len(subs))]
			T := epoch.Add(-time.Hour)
			c.spawn(id, func(ctx context.Context) {
				ctx, committed := cancelAtCommit(id, ctx, faulted)
				t0 := time.Now()
				_, err := w.Call(ctx, "Seek", &pubsubpb.SeekRequest{Subscription: s.Name, Target: &pubsubpb.SeekRequest_Time{Time: timestamppbNew(T)}})
				t1 := time.Now()
				r.ev("%s Seek %s to the past -> %v", id, s.Name, code(err))
				if did := committed(); err == nil || did {
					pendingOps = append(pendingOps, doneOp{S.TaskCommit(id), func() *Violation { r.M.SeekTime(s, T, t0, t1); return nil }})
				}
			})
		case 7: // nack through the streamer's ack+nack transaction (what a failed push produces):
			// re-schedules with the back-off, or dead-letters a delivery whose attempts are used up
			var ids []string
			for id2, e := range r.M.AckIDs {
				if e.Sub.Live && e.State == stOut {
					ids = append(ids, id2)
				}
			}
			sort.Strings(ids)
			for j := len(ids) - 1; j > 0; j-- {
				k := tape.Intn(j + 1)
				ids[j], ids[k] = ids[k], ids[j]
			}
			if len(ids) > 4 {
				ids = ids[:4]
			}
			var us []uuid.UUID
			for _, x := range ids {
				if u, err := uuid.Parse(x); err == nil {
					us = append(us, u)
				}
			}
			if len(us) == 0 || len(us) != len(ids) {
				continue
			}
			c.spawn(id, func(ctx context.Context) {
				t0 := time.Now()
				err := actions.VerifStreamAckNack(ctx, w.Client, uuid.Nil, "nack", nil, us)
				t1 := time.Now()
				r.ev("%s stream Nack %s -> %v", id, r.descIDs(ids), err)
				if err == nil {
					pendingOps = append(pendingOps, doneOp{S.TaskCommit(id), func() *Violation { r.M.Nack(ids, t0, t1); return nil }})
				}
			})
		case 6: // seek to a snapshot (may acknowledge an ordered predecessor)
			s, sn := r.M.LiveSub(subName(0)), r.M.Snaps[snapName(0)]
			c.spawn(id, func(ctx context.Context) {
				t0 := time.Now()
				_, err := w.Call(ctx, "Seek", &pubsubpb.SeekRequest{Subscription: s.Name, Target: &pubsubpb.SeekRequest_Snapshot{Snapshot: snapName(0)}})
				t1 := time.Now()
				r.ev("%s Seek %s to snapshot %s -> %v", id, s.Name, snapName(0), code(err))
				if err == nil {
					pendingOps = append(pendingOps, doneOp{S.TaskCommit(id), func() *Violation { r.M.SeekSnap(s, sn, t0, t1); return nil }})
				}
			})
		case 5: // background dead-letter sweep (forwards into other topics)
			c.spawn(id, func(ctx context.Context) {
				a := actions.NewDeadLetterDeliveries(actions.DeadLetterDeliveriesParams{MaxDeliveries: 100})
				t0 := time.Now()
				err := w.Client.DoCtxTx(ctx, nil, a.Execute)
				t1 := time.Now()
				r.ev("%s dead-letter sweep -> %v", id, err)
				if err == nil {
					pendingOps = append(pendingOps, doneOp{S.TaskCommit(id), func() *Violation { r.M.Sweep(100, t0, t1); return nil }})
				}
			})
		}
	}
	// ---- schedule. Finished operations are applied to the model in the order of their
	// decisive commits (not in return order), once the system is quiescent.
	var viol0 *Violation
	processWaiter := func(ww *wakeWaiter) *Violation {
		if ww.err != nil {
			if p, ok := isPanic(ww.err); ok {
				return viol("C16", "panic:Pull", "%v", p.Val)
			}
			if code(ww.err) == codes.NotFound && !ww.sub.Live {
				return nil
			}
			return viol("C10", "waiter_error", "waiting Pull on %s failed: %v", ww.sub.Name, ww.err)
		}
		var d []string
		for _, x := range ww.resp {
			if mm := r.M.Msgs[x.MsgID]; mm != nil {
				d = append(d, fmt.Sprintf("m%d#%d", mm.Seq, x.Attempt))
			} else {
				d = append(d, "m?")
			}
			r.ackPool = append(r.ackPool, x.AckID)
		}
		r.ev("%s Pull %s waited %v -> [%s]", ww.task.id, ww.sub.Name, ww.t1.Sub(ww.t0), strings.Join(d, " "))
		return r.M.Pull(ww.sub, 1000, ww.resp, ww.t0, ww.t1)
	}
	processed := map[*wakeWaiter]bool{}
	after := func() *Violation { return nil }
	flush := func() *Violation {
		for _, ww := range waiters {
			if ww.task.done && !processed[ww] {
				processed[ww] = true
				ww := ww
				pendingOps = append(pendingOps, doneOp{S.TaskCommit(ww.task.id), func() *Violation { return processWaiter(ww) }})
			}
		}
		sort.SliceStable(pendingOps, func(a, b int) bool { return pendingOps[a].seq < pendingOps[b].seq })
		for _, op := range pendingOps {
			if v := op.apply(); v != nil {
				return v
			}
		}
		pendingOps = nil
		return nil
	}
	v, ok := c.run(3000, after)
	if voidRun {
		r.Stats["void_commit_without_ids"]++
		c.finish()
		r.M.Concurrent = false
		return
	}
	if v != nil {
		viol0 = v
	} else if !ok {
		r.Stats["truncated"]++
	} else {
		// quiescent: every writer returned; waiters are done or natively blocked.
		// allow one second of virtual time (far below every timer of the scenario)
		time.Sleep(time.Second)
		S.Settle()
		v, _ = c.run(3000, after)
		viol0 = v
		if viol0 == nil {
			viol0 = flush()
		}
		if viol0 == nil {
			now := time.Now()
			for _, ww := range waiters {
				if ww.task.done || !ww.sub.Live {
					continue
				}
				must := r.M.MustDeliverable(ww.sub, now, now)
				r.Stats["waiter_still_waiting"]++
				r.ev("%s still waiting on %s at quiescence; must-deliverable=%d", ww.task.id, ww.sub.Name, len(must))
				if len(must) > 0 {
					viol0 = viol("C10", "lost_wakeup", "Pull on %s has been waiting since %v and is still blocked %v after all writers returned, although %d message(s) are deliverable on it, e.g. %v", ww.sub.Name, ww.t0.Sub(epoch), now.Sub(ww.t0), len(must), must[0])
					break
				}
			}
			for _, ww := range waiters {
				if ww.task.done && len(ww.resp) > 0 {
					r.Stats["waiter_woken_with_message"]++
				}
			}
		}
	}
	c.finish()
	r.M.Concurrent = false
	out.v = viol0
	r.Stats["conc_steps"] += c.steps
}

func runPullers(t *testing.T, tape *Tape, w *World, variant string, steps int, out *runOutcome) {
	r := newSetupRun(tape, w, "retry")
	out.stats = r.Stats
	defer func() { out.trace, out.probes, out.hashes = r.Trace, r.M.Probes, r.Hashes }()
	if v := r.setup(); v != nil {
		out.v = v
		return
	}
	n := 8 + tape.Intn(20)
	for i := 0; i < n; i++ {
		if v := r.step(); v != nil {
			out.v = v
			return
		}
	}
	out.header = len(tape.marks)
	subs := liveSubs(r.M)
	if len(subs) == 0 {
		return
	}
	tape.Frame()
	// make sure there is something to pull: advance past leases sometimes
	if tape.Bool(50) {
		time.Sleep(time.Duration(1+tape.Intn(40)) * time.Minute)
		S.Settle()
	}
	s := subs[tape.Intn(len(subs))]
	r.nudge(50 * time.Millisecond)
	r.ev("---- concurrent pullers on %s", s.Name)
	r.M.Concurrent = true
	S.on = true
	c := &conc{t: tape}
	np := 2 + tape.Intn(3)
	type pres struct {
		t0, t1 time.Time
		resp   []RecvMsg
		err    error
		id     string
		max    int32
		seq    int
	}
	var results []*pres
	var finished []*pres
	for i := 0; i < np; i++ {
		p := &pres{id: fmt.Sprintf("puller%d", i), max: []int32{1, 2, 5, 1000}[tape.Intn(4)]}
		results = append(results, p)
		rounds := 1 + tape.Intn(2)
		c.spawn(p.id, func(ctx context.Context) {
			for k := 0; k < rounds; k++ {
				q := &pres{id: p.id, max: p.max}
				q.t0 = time.Now()
				resp, err := w.Call(ctx, "Pull", &pubsubpb.PullRequest{Subscription: s.Name, MaxMessages: p.max, ReturnImmediately: true})
				q.t1 = time.Now()
				q.err = err
				q.seq = S.TaskCommit(p.id)
				if err == nil {
					q.resp = toRecv(resp.(*pubsubpb.PullResponse).ReceivedMessages)
				}
				finished = append(finished, q)
			}
		})
	}
	done := 0
	after := func() *Violation {
		sort.SliceStable(finished, func(a, b int) bool { return finished[a].seq < finished[b].seq })
		for done < len(finished) {
			q := finished[done]
			done++
			if q.err != nil {
				if p, ok := isPanic(q.err); ok {
					return viol("C16", "panic:Pull", "%v", p.Val)
				}
				return viol("C04", "concurrent_pull_error", "concurrent Pull on %s failed: %v", s.Name, q.err)
			}
			var d []string
			for _, x := range q.resp {
				if mm := r.M.Msgs[x.MsgID]; mm != nil {
					d = append(d, fmt.Sprintf("m%d#%d", mm.Seq, x.Attempt))
				}
			}
			r.ev("%s Pull %s max=%d [%v..%v] -> [%s]", q.id, s.Name, q.max, q.t0.Sub(epoch), q.t1.Sub(epoch), strings.Join(d, " "))
			if len(q.resp) > 0 {
				r.Stats["concurrent_pull_nonempty"]++
			}
			if v := r.M.Pull(s, int(q.max), q.resp, q.t0, q.t1); v != nil {
				return v
			}
		}
		return nil
	}
	v, ok := c.run(3000, nil)
	if v == nil {
		v = after()
	}
	if !ok {
		r.Stats["truncated"]++
	}
	c.finish()
	r.M.Concurrent = false
	r.Stats["conc_steps"] += c.steps
	if v != nil {
		out.v = v
		return
	}
	// sequential epilogue: completeness is back on; everything must still drain
	out.v = r.drain()
}

func init() {
	engines["wake"] = runWake
	engines["pullers"] = runPullers
}

// pullSub pulls everything currently deliverable on s (model-checked), optionally acking it.
func (r *Run) pullSub(s *MSub, ack bool) *Violation {
	resp, res := r.do("Pull", &pubsubpb.PullRequest{Subscription: s.Name, MaxMessages: 1000, ReturnImmediately: true})
	if res.err != nil {
		return r.expectCode("C12", "Pull "+s.Name, res, codes.OK)
	}
	recv := toRecv(resp.(*pubsubpb.PullResponse).ReceivedMessages)
	var ids, d []string
	for _, x := range recv {
		ids = append(ids, x.AckID)
		r.ackPool = append(r.ackPool, x.AckID)
		if mm := r.M.Msgs[x.MsgID]; mm != nil {
			d = append(d, fmt.Sprintf("m%d#%d", mm.Seq, x.Attempt))
		}
	}
	r.ev("Pull %s (pre-phase) -> [%s]", s.Name, strings.Join(d, " "))
	if v := r.M.Pull(s, 1000, recv, res.t0, res.t1); v != nil {
		return v
	}
	if ack && len(ids) > 0 {
		return r.ackIDs(s.Name, ids)
	}
	return nil
}

// ---- canned starting states for the wake profile (the interleaving is still the tape's) ----

func (r *Run) xTopic(i int) *Violation { return r.doCreateTopic(i) }

func (r *Run) xSub(i, ti int, mod func(cfg *SubCfg, req *pubsubpb.Subscription)) *Violation {
	name, tn := subName(i), topicName(ti)
	cfg := SubCfg{Retention: 7 * 24 * time.Hour, TTL: 30 * 24 * time.Hour, MinB: 30 * time.Second}
	req := &pubsubpb.Subscription{Name: name, Topic: tn, RetryPolicy: &pubsubpb.RetryPolicy{MinimumBackoff: durationpbNew(30 * time.Second)}}
	if mod != nil {
		mod(&cfg, req)
	}
	_, res := r.do("CreateSubscription", req)
	r.ev("CreateSubscription %s on %s filter=%q ordered=%v dl=%v/%d -> %v", name, tn, cfg.Filter, cfg.Ordered, cfg.DLTopic != nil, cfg.MaxAttempts, code(res.err))
	if v := r.expectCode("C12", "CreateSubscription "+name, res, codes.OK); v != nil {
		return v
	}
	r.M.CreateSub(name, r.M.LiveTopic(tn), cfg, res.t0, res.t1)
	return nil
}

func (r *Run) xPublish(ti int, attrs map[string]string, key string) *Violation {
	name := topicName(ti)
	data := r.genPayload(r.M.msgSeq + 1)
	resp, res := r.do("Publish", &pubsubpb.PublishRequest{Topic: name, Messages: []*pubsubpb.PubsubMessage{{Data: data, Attributes: attrs, OrderingKey: key}}})
	if v := r.expectCode("C12", "Publish "+name, res, codes.OK); v != nil {
		return v
	}
	id, v := oneMessageID(resp)
	if v != nil {
		return v
	}
	m := r.M.Publish(r.M.LiveTopic(name), id, data, attrs, key, res.t0, res.t1)
	r.ev("Publish %s msg %d key=%q attrs=%v", name, m.Seq, key, attrs)
	return nil
}

func (r *Run) cannedWake(scenario int) *Violation {
	t := r.T
	t.Frame()
	r.nTopics, r.nSubs = 2, 3
	switch scenario {
	case 4:
		r.hintWaitSub, r.hintWriter = subName(1), 5
	case 5:
		r.hintWaitSub, r.hintWriter = subName(t.Intn(3)), 2
	case 6:
		r.hintWaitSub, r.hintWriter = subName(0), 3
	case 8:
		r.hintWaitSub, r.hintWriter = subName(0), 7
	case 9:
		r.hintWaitSub, r.hintWriter = subName(0), 5
	case 10:
		r.hintWaitSub, r.hintWriter = subName(0), 6
	default:
		r.hintWaitSub, r.hintWriter = subName(t.Intn(2)), 4
	}
	first := func(vs ...*Violation) *Violation {
		for _, v := range vs {
			if v != nil {
				return v
			}
		}
		return nil
	}
	if v := first(r.xTopic(0), r.xTopic(1)); v != nil {
		return v
	}
	switch scenario {
	case 4: // dead-letter forward into the waiter's topic
		n := int32(1 + t.Intn(2))
		if v := first(
			r.xSub(0, 0, func(c *SubCfg, q *pubsubpb.Subscription) {
				c.DLTopic, c.MaxAttempts = r.M.LiveTopic(topicName(1)), n
				q.DeadLetterPolicy = &pubsubpb.DeadLetterPolicy{DeadLetterTopic: topicName(1), MaxDeliveryAttempts: n}
			}),
			r.xSub(1, 1, nil),
			r.xSub(2, t.Intn(2), nil),
			r.xPublish(0, map[string]string{"kind": "a"}, ""),
		); v != nil {
			return v
		}
		for k := int32(0); k < n; k++ {
			if v := r.pullSub(r.M.LiveSub(subName(0)), false); v != nil {
				return v
			}
			time.Sleep(3 * time.Minute)
			S.Settle()
		}
		// lease whatever the bystander has so that it waits too
		return first(r.pullSub(r.M.LiveSub(subName(2)), false), r.pullSub(r.M.LiveSub(subName(1)), false))
	case 5: // leased deliveries on several subscriptions with different filters, then publishes
		// that reach only some of them (a wake deletes that subscription's waiter set)
		fA, fB := filterPalette[2].Text, filterPalette[4].Text // kind = "a"  /  NOT attributes:kind
		if v := first(
			r.xSub(0, 0, func(c *SubCfg, q *pubsubpb.Subscription) { c.Filter, q.Filter = fA, fA }),
			r.xSub(1, 0, func(c *SubCfg, q *pubsubpb.Subscription) { c.Filter, q.Filter = fB, fB }),
			r.xSub(2, 0, nil),
			r.xPublish(0, map[string]string{"kind": "a"}, ""),
			r.xPublish(0, nil, ""),
		); v != nil {
			return v
		}
		for i := 0; i < 3; i++ {
			if v := r.pullSub(r.M.LiveSub(subName(i)), false); v != nil {
				return v
			}
		}
		// extra publishes matching a tape-chosen subset, each followed by a lease of it
		for k := t.Intn(3); k > 0; k-- {
			var attrs map[string]string
			if t.Bool(50) {
				attrs = map[string]string{"kind": "a"}
			}
			if v := r.xPublish(0, attrs, ""); v != nil {
				return v
			}
			for i := 0; i < 3; i++ {
				if t.Bool(70) {
					if v := r.pullSub(r.M.LiveSub(subName(i)), false); v != nil {
						return v
					}
				}
			}
		}
		// finally a publish that reaches a subset and is NOT pulled by the others' owners:
		// lease it only on the subscriptions it reached
		var attrs map[string]string
		if t.Bool(50) {
			attrs = map[string]string{"kind": "a"}
		}
		if v := r.xPublish(0, attrs, ""); v != nil {
			return v
		}
		for i := 0; i < 3; i++ {
			s := r.M.LiveSub(subName(i))
			if filterMatches(s.Cfg.Filter, attrs) {
				_ = s // left un-pulled on purpose half of the time
				if t.Bool(50) {
					if v := r.pullSub(s, false); v != nil {
						return v
					}
				}
			}
		}
		return nil
	case 6: // ordered subscription: predecessor leased, successor blocked
		if v := first(
			r.xSub(0, 0, func(c *SubCfg, q *pubsubpb.Subscription) { c.Ordered, q.EnableMessageOrdering = true, true }),
			r.xSub(1, 0, nil),
			r.xPublish(0, nil, "K1"),
			r.xPublish(0, nil, "K1"),
			r.xPublish(0, nil, "K2"),
		); v != nil {
			return v
		}
		return first(r.pullSub(r.M.LiveSub(subName(0)), false), r.pullSub(r.M.LiveSub(subName(1)), false))
	case 8, 9: // ordered subscription whose leased (8) or lapsed (9) predecessor has used up its
		// attempts, dead-letter topic without subscribers: retiring it (nack / sweep) forwards
		// nothing, but releases the successor
		n := int32(1 + t.Intn(2))
		if v := first(
			r.xSub(0, 0, func(c *SubCfg, q *pubsubpb.Subscription) {
				c.Ordered, q.EnableMessageOrdering = true, true
				c.DLTopic, c.MaxAttempts = r.M.LiveTopic(topicName(1)), n
				q.DeadLetterPolicy = &pubsubpb.DeadLetterPolicy{DeadLetterTopic: topicName(1), MaxDeliveryAttempts: n}
			}),
			r.xSub(1, 0, nil),
			r.xPublish(0, nil, "K1"),
			r.xPublish(0, nil, "K1"),
		); v != nil {
			return v
		}
		for k := int32(0); k < n; k++ {
			if v := r.pullSub(r.M.LiveSub(subName(0)), false); v != nil {
				return v
			}
			if k < n-1 || scenario == 9 {
				time.Sleep(3 * time.Minute)
				S.Settle()
			}
		}
		return r.pullSub(r.M.LiveSub(subName(1)), false)
	case 10: // ordered subscription: the predecessor is acknowledged in a snapshot, re-opened by a
		// seek to the past and leased again; seeking to the snapshot acknowledges it (and
		// nothing else changes), which releases the successor
		if v := first(
			r.xSub(0, 0, func(c *SubCfg, q *pubsubpb.Subscription) { c.Ordered, q.EnableMessageOrdering = true, true }),
			r.xSub(1, 0, nil),
			r.xPublish(0, nil, "K1"),
			r.xPublish(0, nil, "K1"),
		); v != nil {
			return v
		}
		s0 := r.M.LiveSub(subName(0))
		if v := r.pullSub(s0, true); v != nil { // m1 delivered and acknowledged, m2 still blocked or not yet pulled
			return v
		}
		if v := r.doSnapshot(0, 0); v != nil {
			return v
		}
		T := epoch.Add(-time.Hour)
		_, res := r.do("Seek", &pubsubpb.SeekRequest{Subscription: s0.Name, Target: &pubsubpb.SeekRequest_Time{Time: timestamppbNew(T)}})
		r.ev("Seek %s to the past -> %v", s0.Name, code(res.err))
		if res.err != nil {
			return r.expectCode("C13", "Seek(time) "+s0.Name, res, codes.OK)
		}
		r.M.SeekTime(s0, T, res.t0, res.t1)
		return first(r.pullSub(s0, false), r.pullSub(r.M.LiveSub(subName(1)), false))
	default: // everything acknowledged: only a seek (or a publish) brings something back
		if v := first(
			r.xSub(0, 0, nil),
			r.xSub(1, 0, func(c *SubCfg, q *pubsubpb.Subscription) { c.Ordered, q.EnableMessageOrdering = true, true }),
			r.xPublish(0, nil, "K1"),
			r.xPublish(0, map[string]string{"kind": "a"}, ""),
		); v != nil {
			return v
		}
		return first(r.pullSub(r.M.LiveSub(subName(0)), true), r.pullSub(r.M.LiveSub(subName(1)), true))
	}
}
