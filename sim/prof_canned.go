package sim

// canned: fixed histories that demonstrate recorded findings independently of the random
// generators (whose tape layout changes whenever an operation is added). The oracle is the
// same reference model; the tape is not consulted. Used by known/*.json replays.

import (
	"fmt"
	"testing"
	"time"

	"go.6river.tech/mmmbbb/grpc/pubsubpb"
)

func runCanned(t *testing.T, tape *Tape, w *World, variant string, steps int, out *runOutcome) {
	r := &Run{T: tape, W: w, M: NewModel(), Sim: S, Variant: "canned", Stats: map[string]int{}, Hashes: map[uint64]bool{}}
	r.M.KnownSigs = knownSigs
	r.nTopics, r.nSubs = 2, 3
	out.stats = r.Stats
	defer func() {
		out.trace, out.probes, out.hashes, out.known = r.Trace, r.M.Probes, r.Hashes, r.M.KnownHits
	}()
	switch variant {
	case "acked_copy":
		out.v = r.cannedAckedCopy()
	case "chain_broken":
		out.v = r.cannedChainBroken()
	case "dl_copy_tie":
		out.v = r.cannedCopyTie()
	case "pruned_ack":
		out.v = r.cannedPrunedAck()
	case "dl_chain":
		out.v = r.cannedDLChain()
	case "prune_dl":
		out.v = r.cannedPruneDL()
	case "snap_long":
		out.v = r.cannedSnapLong()
	case "ack_many":
		out.v = r.cannedAckMany()
	default:
		panic("HARNESS: unknown canned scenario " + variant)
	}
}

func (r *Run) sleep(d time.Duration) {
	time.Sleep(d)
	r.Sim.Settle()
	r.ev("advance %v", d)
}

// C13/restored_acked_dead_letter_copy: an acknowledged dead-letter forwarded copy is re-opened
// by a seek of its subscription to a snapshot taken after the acknowledgement.
func (r *Run) cannedAckedCopy() *Violation {
	short := func(c *SubCfg, q *pubsubpb.Subscription) {
		c.MinB = time.Second
		q.RetryPolicy = &pubsubpb.RetryPolicy{MinimumBackoff: durationpbNew(time.Second)}
	}
	steps := []func() *Violation{
		func() *Violation { return r.xTopic(0) },
		func() *Violation { return r.xTopic(1) },
		func() *Violation {
			return r.xSub(0, 0, func(c *SubCfg, q *pubsubpb.Subscription) {
				short(c, q)
				c.DLTopic, c.MaxAttempts = r.M.LiveTopic(topicName(1)), 1
				q.DeadLetterPolicy = &pubsubpb.DeadLetterPolicy{DeadLetterTopic: topicName(1), MaxDeliveryAttempts: 1}
			})
		},
		func() *Violation { return r.xSub(2, 1, short) },
		func() *Violation { return r.xPublish(1, nil, "") }, // m1 on the dead-letter topic: stays unacknowledged on s2
		func() *Violation { return r.xPublish(0, nil, "") }, // m2: will be dead-lettered by s0
		func() *Violation { return r.pullSub(r.M.LiveSub(subName(0)), false) },
		func() *Violation { r.sleep(5 * time.Second); return nil },
		func() *Violation { return r.pullSub(r.M.LiveSub(subName(0)), false) }, // attempts used up: forwarded to t1
		func() *Violation { return r.pullSub(r.M.LiveSub(subName(2)), false) }, // m1 and the copy of m2
		func() *Violation {
			for _, e := range r.M.LiveSub(subName(2)).EDs {
				if e.Origin != nil && e.AckID != "" {
					return r.ackIDs(subName(2), []string{e.AckID}) // acknowledge the copy only
				}
			}
			panic("HARNESS: canned acked_copy: no forwarded copy was delivered")
		},
		func() *Violation { return r.doSnapshot(0, 2) },
		func() *Violation { return r.doSeekSnap(2, 0) },
		func() *Violation { r.sleep(5 * time.Second); return nil },
		func() *Violation { return r.pullSub(r.M.LiveSub(subName(2)), true) },
	}
	for _, f := range steps {
		if v := f(); v != nil {
			return v
		}
	}
	return nil
}

func (r *Run) runSteps(steps []func() *Violation) *Violation {
	for _, f := range steps {
		if v := f(); v != nil {
			return v
		}
	}
	return nil
}

func shortRetry(c *SubCfg, q *pubsubpb.Subscription) {
	c.MinB = time.Second
	q.RetryPolicy = &pubsubpb.RetryPolicy{MinimumBackoff: durationpbNew(time.Second)}
}

func (r *Run) sub(i int) *MSub { return r.M.LiveSub(subName(i)) }

// ackWhere acknowledges the deliveries of subscription i whose message sequence satisfies keep.
func (r *Run) ackWhere(i int, keep func(seq int) bool) *Violation {
	var ids []string
	for _, e := range r.sub(i).EDs {
		if e.AckID != "" && e.State == stOut && keep(e.Msg.Seq) {
			ids = append(ids, e.AckID)
		}
	}
	if len(ids) == 0 {
		panic("HARNESS: canned: nothing to acknowledge")
	}
	return r.ackIDs(subName(i), ids)
}

// C05/overtaken_chain_broken: one predecessor link per delivery + transitivity, broken by a
// seek and an acknowledgement with a stale ack id.
func (r *Run) cannedChainBroken() *Violation {
	ordered := func(c *SubCfg, q *pubsubpb.Subscription) {
		shortRetry(c, q)
		c.Ordered, q.EnableMessageOrdering = true, true
	}
	var staleM2 string
	return r.runSteps([]func() *Violation{
		func() *Violation { return r.xTopic(0) },
		func() *Violation { return r.xSub(0, 0, ordered) },
		func() *Violation { return r.xPublish(0, nil, "K") }, // m1
		func() *Violation { return r.xPublish(0, nil, "K") }, // m2
		func() *Violation { return r.doSnapshot(0, 0) },
		func() *Violation { return r.pullSub(r.sub(0), true) },  // m1, acknowledged
		func() *Violation { return r.pullSub(r.sub(0), false) }, // m2, kept
		func() *Violation {
			for _, e := range r.sub(0).EDs {
				if e.Msg.Seq == 2 {
					staleM2 = e.AckID
				}
			}
			return r.doSeekSnap(0, 0) // m1 outstanding again, m2 still outstanding
		},
		func() *Violation { return r.ackIDs(subName(0), []string{staleM2}) },
		func() *Violation { return r.xPublish(0, nil, "K") }, // m3: its only link points at m2 (settled)
		func() *Violation { r.sleep(5 * time.Second); return nil },
		func() *Violation { return r.pullSub(r.sub(0), true) }, // m3 comes with m1
	})
}

// C05/overtaken_dead_letter_copy: copies forwarded by one dead-lettering step share
// published_at; same-key copies on an ordered dead-letter subscription link to one predecessor.
func (r *Run) cannedCopyTie() *Violation {
	return r.runSteps([]func() *Violation{
		func() *Violation { return r.xTopic(0) },
		func() *Violation { return r.xTopic(1) },
		func() *Violation {
			return r.xSub(0, 0, func(c *SubCfg, q *pubsubpb.Subscription) {
				shortRetry(c, q)
				c.DLTopic, c.MaxAttempts = r.M.LiveTopic(topicName(1)), 1
				q.DeadLetterPolicy = &pubsubpb.DeadLetterPolicy{DeadLetterTopic: topicName(1), MaxDeliveryAttempts: 1}
			})
		},
		func() *Violation {
			return r.xSub(2, 1, func(c *SubCfg, q *pubsubpb.Subscription) {
				shortRetry(c, q)
				c.Ordered, q.EnableMessageOrdering = true, true
			})
		},
		func() *Violation { return r.xPublish(0, nil, "K") },
		func() *Violation { return r.xPublish(0, nil, "K") },
		func() *Violation { return r.xPublish(0, nil, "K") },
		func() *Violation { return r.pullSub(r.sub(0), false) }, // all three, once
		func() *Violation { r.sleep(5 * time.Second); return nil },
		func() *Violation { return r.pullSub(r.sub(0), false) }, // attempts used up: all forwarded in one step
		func() *Violation { return r.pullSub(r.sub(2), true) },  // the first copy
		func() *Violation { return r.pullSub(r.sub(2), true) },  // the other two together
	})
}

// C13/restored_pruned_ack: a snapshot forgets the acknowledgement of a message whose completed
// row has been pruned; a sibling subscription sought to it gets the message back.
func (r *Run) cannedPrunedAck() *Violation {
	return r.runSteps([]func() *Violation{
		func() *Violation { return r.xTopic(0) },
		func() *Violation { return r.xSub(0, 0, shortRetry) },
		func() *Violation { return r.xSub(2, 0, shortRetry) },
		func() *Violation { return r.xPublish(0, nil, "") },
		func() *Violation { return r.xPublish(0, nil, "") },
		func() *Violation { return r.xPublish(0, nil, "") },
		func() *Violation { return r.pullSub(r.sub(0), false) },
		func() *Violation { return r.ackWhere(0, func(seq int) bool { return seq != 1 }) }, // m1 stays unacknowledged
		func() *Violation { return r.runJob(0, time.Nanosecond, 100, false) },              // prune-completed-deliveries
		func() *Violation { return r.doSnapshot(0, 0) },
		func() *Violation { return r.doSeekSnap(2, 0) },
		func() *Violation { r.sleep(5 * time.Second); return nil },
		func() *Violation { return r.pullSub(r.sub(2), true) }, // expected m1 only
	})
}

// dl_chain (must hold on the unchanged tree): two same-key messages of one topic, dead-lettered
// in two SEPARATE steps, stay ordered on an ordered subscription of the dead-letter topic: the
// second copy is chained behind the first.
func (r *Run) cannedDLChain() *Violation {
	return r.runSteps([]func() *Violation{
		func() *Violation { return r.xTopic(0) },
		func() *Violation { return r.xTopic(1) },
		func() *Violation {
			return r.xSub(0, 0, func(c *SubCfg, q *pubsubpb.Subscription) {
				shortRetry(c, q)
				c.DLTopic, c.MaxAttempts = r.M.LiveTopic(topicName(1)), 1
				q.DeadLetterPolicy = &pubsubpb.DeadLetterPolicy{DeadLetterTopic: topicName(1), MaxDeliveryAttempts: 1}
			})
		},
		func() *Violation {
			return r.xSub(2, 1, func(c *SubCfg, q *pubsubpb.Subscription) {
				shortRetry(c, q)
				c.Ordered, q.EnableMessageOrdering = true, true
			})
		},
		func() *Violation { return r.xPublish(0, nil, "K") },
		func() *Violation { return r.pullSub(r.sub(0), false) },
		func() *Violation { r.sleep(5 * time.Second); return nil },
		func() *Violation { return r.pullSub(r.sub(0), false) }, // first copy forwarded
		func() *Violation { return r.xPublish(0, nil, "K") },
		func() *Violation { return r.pullSub(r.sub(0), false) },
		func() *Violation { r.sleep(5 * time.Second); return nil },
		func() *Violation { return r.pullSub(r.sub(0), false) }, // second copy forwarded, in its own step
		func() *Violation { return r.pullSub(r.sub(2), false) }, // only the first copy may come
		func() *Violation { r.sleep(5 * time.Second); return nil },
		func() *Violation { return r.pullSub(r.sub(2), true) }, // first again (lease over), acknowledged
		func() *Violation { return r.pullSub(r.sub(2), true) }, // now the second
	})
}

func init() { engines["canned"] = runCanned }

// prune_dl (must hold on the unchanged tree): a dead-lettered message is still outstanding on a
// live subscription of the dead-letter topic when its source subscription and source topic are
// deleted and every maintenance job has run over the remains, in several rounds and with
// several age thresholds: no job may change a live row, the subscription still receives the
// message, and once it is acknowledged and everything is deleted nothing is left behind.
func (r *Run) cannedPruneDL() *Violation {
	steps := []func() *Violation{
		func() *Violation { return r.xTopic(0) },
		func() *Violation { return r.xTopic(1) },
		func() *Violation {
			return r.xSub(0, 0, func(c *SubCfg, q *pubsubpb.Subscription) {
				shortRetry(c, q)
				c.DLTopic, c.MaxAttempts = r.M.LiveTopic(topicName(1)), 1
				q.DeadLetterPolicy = &pubsubpb.DeadLetterPolicy{DeadLetterTopic: topicName(1), MaxDeliveryAttempts: 1}
			})
		},
		func() *Violation { return r.xSub(2, 1, shortRetry) },
		func() *Violation { return r.xPublish(0, nil, "") },
		func() *Violation { return r.pullSub(r.sub(0), false) },
		func() *Violation { r.sleep(5 * time.Second); return nil },
		func() *Violation { return r.pullSub(r.sub(0), false) }, // attempts used up: forwarded to t1
		func() *Violation { return r.doDeleteSub(0) },
		func() *Violation { return r.doDeleteTopic(0) },
		func() *Violation { r.sleep(3 * time.Hour); return nil },
	}
	for round := 0; round < 4; round++ {
		for j := 0; j < 6; j++ {
			j, minAge, maxDel := j, []time.Duration{time.Hour, 0, time.Second, time.Hour}[round], []int{100, 1, 2, 100}[round]
			steps = append(steps, func() *Violation { return r.runJob(j, minAge, maxDel, false) })
		}
	}
	steps = append(steps,
		func() *Violation { return r.pullSub(r.sub(2), true) }, // the forwarded message, acknowledged
		func() *Violation { return r.fixpoint() },
	)
	return r.runSteps(steps)
}

// snap_long (must hold on the unchanged tree): a snapshot taken while far more than a
// thousand messages are acknowledged behind one stuck head message records all of those
// acknowledgements: seeking to it restores the head and nothing else.
func (r *Run) cannedSnapLong() *Violation {
	const n = 1150
	steps := []func() *Violation{
		func() *Violation { return r.xTopic(0) },
		func() *Violation { return r.xSub(0, 0, shortRetry) },
	}
	for i := 0; i <= n; i++ {
		steps = append(steps, func() *Violation { return r.xPublish(0, nil, "") })
	}
	steps = append(steps,
		func() *Violation { return r.pullSub(r.sub(0), false) }, // (a pull hands out at most 1000)
		func() *Violation { return r.pullSub(r.sub(0), false) },
		func() *Violation { return r.ackWhere(0, func(seq int) bool { return seq != 1 }) },
		func() *Violation { return r.doSnapshot(0, 0) },
		func() *Violation { return r.doSeekSnap(0, 0) },
		func() *Violation { r.sleep(5 * time.Second); return nil },
		func() *Violation { return r.pullSub(r.sub(0), true) },
		func() *Violation { r.sleep(5 * time.Second); return nil },
		func() *Violation { return r.pullSub(r.sub(0), true) },
	)
	return r.runSteps(steps)
}

// ack_many (must hold on the unchanged tree): one Acknowledge request that carries between
// one and a few thousand ack ids (client libraries batch up to 2500) settles every one of
// them: after the leases have run out nothing is delivered again. The count comes from the
// tape, so that whatever batching the implementation applies meets uneven remainders.
func (r *Run) cannedAckMany() *Violation {
	r.T.Frame()
	n := 1000 + r.T.Intn(1700)
	r.stat("ack_many_ids_" + fmt.Sprint(n/500*500) + "+")
	steps := []func() *Violation{
		func() *Violation { return r.xTopic(0) },
		func() *Violation { return r.xSub(0, 0, shortRetry) },
	}
	for i := 0; i < n; i++ {
		steps = append(steps, func() *Violation { return r.xPublish(0, nil, "") })
	}
	for i := 0; i*1000 < n; i++ { // (a pull hands out at most 1000)
		steps = append(steps, func() *Violation { return r.pullSub(r.sub(0), false) })
	}
	steps = append(steps,
		func() *Violation {
			k := 0
			for _, e := range r.sub(0).EDs {
				if e.AckID != "" && e.State == stOut {
					k++
				}
			}
			if k != n {
				panic(fmt.Sprintf("HARNESS: canned ack_many: %d of %d messages handed out", k, n))
			}
			return r.ackWhere(0, func(int) bool { return true })
		},
		func() *Violation { r.sleep(5 * time.Second); return nil },
		func() *Violation { return r.pullSub(r.sub(0), false) },
		func() *Violation { r.sleep(5 * time.Second); return nil },
		func() *Violation { return r.pullSub(r.sub(0), false) },
	)
	return r.runSteps(steps)
}
