package sim

// names (C12): histories of create / delete / re-create / get / list over topics,
// subscriptions and snapshots in several projects whose names collide under case folding,
// prefixing and LIKE wildcards; List is walked page by page for every page size.

import (
	"context"
	"fmt"
	"sort"
	"strings"
	"testing"
	"time"

	"google.golang.org/grpc/codes"
	"google.golang.org/protobuf/proto"
	"google.golang.org/protobuf/types/known/durationpb"

	"go.6river.tech/mmmbbb/grpc/pubsubpb"
)

var nmProjects = []string{"projects/p", "projects/P", "projects/p2", "projects/p%", "projects/p_"}
var nmIDs = []string{"a", "A", "ab", "a%", "a_", "aXb", `a\b`, "é"}

type nmSub struct {
	topic   string
	custom  bool
	created time.Time
}

type nmModel struct {
	topics map[string]bool
	subs   map[string]*nmSub
	snaps  map[string]string // name -> topic name at creation
}

type nmRun struct {
	t *Tape
	w *World
	m *nmModel
	// armKind/armAt: fault armed for the next call of the current step
	armKind FaultKind
	armAt   int
	trace   []string
	stats   map[string]int
	hash    map[uint64]bool
}

func (r *nmRun) ev(f string, a ...any) { r.trace = append(r.trace, fmt.Sprintf(f, a...)) }

// nmFaulted unwinds a step whose call failed because of an injected storage fault or
// cancellation: such a call must have changed nothing, so the model is left as it was.
type nmFaulted struct{}

func (r *nmRun) call(method string, req proto.Message) (proto.Message, error) {
	if r.armKind == FaultNone {
		return r.w.Call(context.Background(), method, req)
	}
	ctx, cancel := context.WithCancel(context.Background())
	defer cancel()
	S.Arm(r.armKind, r.armAt, cancel)
	kind := r.armKind
	r.armKind = FaultNone
	resp, err := r.w.Call(ctx, method, req)
	_, fired := S.Disarm()
	if fired {
		r.stats["names_fault_fired_"+kind.String()]++
	}
	if fired && err != nil {
		if p, ok := isPanic(err); ok {
			panic(fmt.Sprintf("%s panicked under an injected fault: %v", method, p.Val))
		}
		r.ev("%s failed under injected %v -> %v (no change expected)", method, kind, code(err))
		panic(nmFaulted{})
	}
	return resp, err
}

func (r *nmRun) expect(what string, err error, want codes.Code) *Violation {
	if p, ok := isPanic(err); ok {
		return viol("C16", "panic", "%s panicked: %v", what, p.Val)
	}
	if got := code(err); got != want {
		return viol("C12", "status", "%s returned %v (%v), expected %v", what, got, err, want)
	}
	return nil
}

func (r *nmRun) name(kind string) string {
	return nmProjects[r.t.Intn(len(nmProjects))] + "/" + kind + "/" + nmIDs[r.t.Intn(len(nmIDs))]
}

// live returns a live name of the kind with probability 2/3 (if any), else a random name.
func (r *nmRun) live(kind string) string {
	var l []string
	switch kind {
	case "topics":
		for n := range r.m.topics {
			l = append(l, n)
		}
	case "subscriptions":
		for n := range r.m.subs {
			l = append(l, n)
		}
	case "snapshots":
		for n := range r.m.snaps {
			l = append(l, n)
		}
	}
	sort.Strings(l)
	if len(l) > 0 && r.t.Intn(3) != 0 {
		return l[r.t.Intn(len(l))]
	}
	return r.name(kind)
}

func projectOf(name string) string { return strings.Join(strings.Split(name, "/")[:2], "/") }

func (r *nmRun) step() (v *Violation) {
	defer func() {
		if x := recover(); x != nil {
			if _, ok := x.(nmFaulted); ok {
				v = nil
				return
			}
			panic(x)
		}
	}()
	t := r.t
	t.Frame()
	m := r.m
	if t.Bool(8) {
		// the next call runs under a storage fault / cancellation; if it fails, nothing changed
		r.armKind = []FaultKind{FaultStmtErr, FaultCommitErr, FaultCancel, FaultCancelAfter}[t.Intn(4)]
		r.armAt = 1 + t.Intn(4)
	}
	switch t.Pick([]int{8, 3, 3, 8, 3, 3, 4, 2, 3, 5, 5, 3, 5, 3}) {
	case 0:
		n := r.name("topics")
		_, err := r.call("CreateTopic", &pubsubpb.Topic{Name: n})
		r.ev("CreateTopic %s -> %v", n, code(err))
		want := codes.OK
		if m.topics[n] {
			want = codes.AlreadyExists
		}
		if v := r.expect("CreateTopic "+n, err, want); v != nil {
			return v
		}
		m.topics[n] = true
	case 1:
		n := r.live("topics")
		_, err := r.call("DeleteTopic", &pubsubpb.DeleteTopicRequest{Topic: n})
		r.ev("DeleteTopic %s -> %v", n, code(err))
		want := codes.OK
		if !m.topics[n] {
			want = codes.NotFound
		}
		if v := r.expect("DeleteTopic "+n, err, want); v != nil {
			return v
		}
		if m.topics[n] {
			delete(m.topics, n)
			for sn, tn := range m.snaps {
				if tn == n {
					delete(m.snaps, sn)
				}
			}
			for _, s := range m.subs {
				if s.topic == n {
					s.topic = "_deleted-topic_"
				}
			}
		}
	case 2:
		n := r.live("topics")
		resp, err := r.call("GetTopic", &pubsubpb.GetTopicRequest{Topic: n})
		r.ev("GetTopic %s -> %v", n, code(err))
		want := codes.OK
		if !m.topics[n] {
			want = codes.NotFound
		}
		if v := r.expect("GetTopic "+n, err, want); v != nil {
			return v
		}
		if err == nil && resp.(*pubsubpb.Topic).Name != n {
			return viol("C12", "get_wrong_resource", "GetTopic %s returned %s", n, resp.(*pubsubpb.Topic).Name)
		}
	case 3:
		n := r.name("subscriptions")
		if t.Bool(20) {
			n = r.live("subscriptions")
		}
		tn := r.live("topics")
		custom := t.Bool(50)
		req := &pubsubpb.Subscription{Name: n, Topic: tn}
		if custom {
			req.Labels = map[string]string{"gen": "custom"}
			req.Filter = "attributes:kind"
			req.EnableMessageOrdering = true
			req.MessageRetentionDuration = durationpb.New(time.Hour)
			req.RetryPolicy = &pubsubpb.RetryPolicy{MinimumBackoff: durationpb.New(3 * time.Second)}
		}
		_, err := r.call("CreateSubscription", req)
		r.ev("CreateSubscription %s on %s custom=%v -> %v", n, tn, custom, code(err))
		want := codes.OK
		if m.subs[n] != nil {
			want = codes.AlreadyExists
		} else if !m.topics[tn] {
			want = codes.NotFound
		}
		if v := r.expect("CreateSubscription "+n, err, want); v != nil {
			return v
		}
		if err == nil {
			recreated := r.stats["deleted:"+n] > 0
			m.subs[n] = &nmSub{topic: tn, custom: custom, created: time.Now()}
			if recreated {
				r.stats["recreated_sub"]++
				// the re-created subscription must start empty and with its own settings
				presp, perr := r.call("Pull", &pubsubpb.PullRequest{Subscription: n, MaxMessages: 100, ReturnImmediately: true})
				if v := r.expect("Pull on re-created "+n, perr, codes.OK); v != nil {
					return v
				}
				if k := len(presp.(*pubsubpb.PullResponse).ReceivedMessages); k != 0 {
					return viol("C12", "inherited_backlog", "re-created subscription %s starts with %d messages", n, k)
				}
				if v := r.checkGetSub(n); v != nil {
					return v
				}
			}
		}
	case 4:
		n := r.live("subscriptions")
		_, err := r.call("DeleteSubscription", &pubsubpb.DeleteSubscriptionRequest{Subscription: n})
		r.ev("DeleteSubscription %s -> %v", n, code(err))
		want := codes.OK
		if m.subs[n] == nil {
			want = codes.NotFound
		}
		if v := r.expect("DeleteSubscription "+n, err, want); v != nil {
			return v
		}
		if m.subs[n] != nil {
			delete(m.subs, n)
			r.stats["deleted:"+n]++
		}
	case 5:
		n := r.live("subscriptions")
		if m.subs[n] == nil {
			_, err := r.call("GetSubscription", &pubsubpb.GetSubscriptionRequest{Subscription: n})
			r.ev("GetSubscription %s -> %v", n, code(err))
			return r.expect("GetSubscription "+n, err, codes.NotFound)
		}
		return r.checkGetSub(n)
	case 6:
		n := r.name("snapshots")
		sn := r.live("subscriptions")
		_, err := r.call("CreateSnapshot", &pubsubpb.CreateSnapshotRequest{Name: n, Subscription: sn})
		r.ev("CreateSnapshot %s of %s -> %v", n, sn, code(err))
		want := codes.OK
		if _, ok := m.snaps[n]; ok {
			want = codes.AlreadyExists
		} else if m.subs[sn] == nil {
			want = codes.NotFound
		}
		if v := r.expect("CreateSnapshot "+n, err, want); v != nil {
			return v
		}
		if err == nil {
			m.snaps[n] = m.subs[sn].topic
		}
	case 7:
		n := r.live("snapshots")
		_, err := r.call("DeleteSnapshot", &pubsubpb.DeleteSnapshotRequest{Snapshot: n})
		r.ev("DeleteSnapshot %s -> %v", n, code(err))
		want := codes.OK
		if _, ok := m.snaps[n]; !ok {
			want = codes.NotFound
		}
		if v := r.expect("DeleteSnapshot "+n, err, want); v != nil {
			return v
		}
		delete(m.snaps, n)
	case 8:
		n := r.live("snapshots")
		resp, err := r.call("GetSnapshot", &pubsubpb.GetSnapshotRequest{Snapshot: n})
		r.ev("GetSnapshot %s -> %v", n, code(err))
		want := codes.OK
		if _, ok := m.snaps[n]; !ok {
			want = codes.NotFound
		}
		if v := r.expect("GetSnapshot "+n, err, want); v != nil {
			return v
		}
		if err == nil && resp.(*pubsubpb.Snapshot).Name != n {
			return viol("C12", "get_wrong_resource", "GetSnapshot %s returned %s", n, resp.(*pubsubpb.Snapshot).Name)
		}
	case 9:
		return r.listKind("topics")
	case 10:
		return r.listKind("subscriptions")
	case 11:
		return r.listKind("snapshots")
	case 12:
		return r.listTopicSubs()
	case 13:
		// publish + pull sanity: a message published to a topic reaches exactly its live subscriptions
		return r.publishProbe()
	}
	return nil
}

func (r *nmRun) checkGetSub(n string) *Violation {
	s := r.m.subs[n]
	resp, err := r.call("GetSubscription", &pubsubpb.GetSubscriptionRequest{Subscription: n})
	r.ev("GetSubscription %s -> %v", n, code(err))
	if v := r.expect("GetSubscription "+n, err, codes.OK); v != nil {
		return v
	}
	g := resp.(*pubsubpb.Subscription)
	if g.Name != n {
		return viol("C12", "get_wrong_resource", "GetSubscription %s returned %s", n, g.Name)
	}
	if g.Topic != s.topic {
		return viol("C12", "get_wrong_topic", "GetSubscription %s reports topic %q, expected %q", n, g.Topic, s.topic)
	}
	if !s.custom {
		if len(g.Labels) != 0 || g.Filter != "" || g.EnableMessageOrdering || g.RetryPolicy != nil || g.DeadLetterPolicy != nil || g.PushConfig != nil {
			return viol("C12", "inherited_settings", "subscription %s created with defaults reports labels=%v filter=%q ordering=%v retry=%v dl=%v push=%v", n, g.Labels, g.Filter, g.EnableMessageOrdering, g.RetryPolicy, g.DeadLetterPolicy, g.PushConfig)
		}
	} else if g.Labels["gen"] != "custom" || g.Filter != "attributes:kind" || !g.EnableMessageOrdering {
		return viol("C17", "create_roundtrip", "subscription %s created with custom settings reports labels=%v filter=%q ordering=%v", n, g.Labels, g.Filter, g.EnableMessageOrdering)
	}
	return nil
}

func (r *nmRun) listKind(kind string) *Violation {
	t := r.t
	proj := nmProjects[t.Intn(len(nmProjects))]
	page := int32(t.Intn(6)) // 0 = default
	var got []string
	token := ""
	pages := 0
	for {
		var names []string
		var next string
		var err error
		var resp proto.Message
		switch kind {
		case "topics":
			resp, err = r.call("ListTopics", &pubsubpb.ListTopicsRequest{Project: proj, PageSize: page, PageToken: token})
			if err == nil {
				for _, x := range resp.(*pubsubpb.ListTopicsResponse).Topics {
					names = append(names, x.Name)
				}
				next = resp.(*pubsubpb.ListTopicsResponse).NextPageToken
			}
		case "subscriptions":
			resp, err = r.call("ListSubscriptions", &pubsubpb.ListSubscriptionsRequest{Project: proj, PageSize: page, PageToken: token})
			if err == nil {
				for _, x := range resp.(*pubsubpb.ListSubscriptionsResponse).Subscriptions {
					names = append(names, x.Name)
					if ms := r.m.subs[x.Name]; ms != nil && x.Topic != ms.topic {
						return viol("C12", "list_wrong_topic", "ListSubscriptions reports %s on topic %q, expected %q", x.Name, x.Topic, ms.topic)
					}
				}
				next = resp.(*pubsubpb.ListSubscriptionsResponse).NextPageToken
			}
		case "snapshots":
			resp, err = r.call("ListSnapshots", &pubsubpb.ListSnapshotsRequest{Project: proj, PageSize: page, PageToken: token})
			if err == nil {
				for _, x := range resp.(*pubsubpb.ListSnapshotsResponse).Snapshots {
					names = append(names, x.Name)
				}
				next = resp.(*pubsubpb.ListSnapshotsResponse).NextPageToken
			}
		}
		if v := r.expect("List "+kind+" "+proj, err, codes.OK); v != nil {
			return v
		}
		if page > 0 && len(names) > int(page) {
			return viol("C12", "page_too_large", "List %s page_size=%d returned %d items", kind, page, len(names))
		}
		got = append(got, names...)
		pages++
		if next == "" {
			break
		}
		if pages > 200 {
			return viol("C12", "list_never_ends", "List %s of %s page_size=%d did not end after 200 pages", kind, proj, page)
		}
		token = next
	}
	var want []string
	prefix := proj + "/" + kind + "/"
	switch kind {
	case "topics":
		for n := range r.m.topics {
			if strings.HasPrefix(n, prefix) {
				want = append(want, n)
			}
		}
	case "subscriptions":
		for n := range r.m.subs {
			if strings.HasPrefix(n, prefix) {
				want = append(want, n)
			}
		}
	case "snapshots":
		for n := range r.m.snaps {
			if strings.HasPrefix(n, prefix) {
				want = append(want, n)
			}
		}
	}
	sort.Strings(want)
	sorted := append([]string(nil), got...)
	sort.Strings(sorted)
	r.ev("List %s of %s page=%d -> %d items in %d pages", kind, proj, page, len(got), pages)
	if pages > 1 {
		r.stats["multi_page_list"]++
	}
	if strings.Join(want, "\n") != strings.Join(sorted, "\n") {
		oracle := "list_" + kind
		return viol("C12", oracle, "List %s of project %s (page_size=%d, %d pages) returned %q, live set is %q", kind, proj, page, pages, sorted, want)
	}
	return nil
}

func (r *nmRun) listTopicSubs() *Violation {
	t := r.t
	tn := r.live("topics")
	page := int32(t.Intn(6))
	var got []string
	token := ""
	pages := 0
	for {
		resp, err := r.call("ListTopicSubscriptions", &pubsubpb.ListTopicSubscriptionsRequest{Topic: tn, PageSize: page, PageToken: token})
		want := codes.OK
		if !r.m.topics[tn] {
			want = codes.NotFound
		}
		if v := r.expect("ListTopicSubscriptions "+tn, err, want); v != nil {
			return v
		}
		if err != nil {
			return nil
		}
		lr := resp.(*pubsubpb.ListTopicSubscriptionsResponse)
		if page > 0 && len(lr.Subscriptions) > int(page) {
			return viol("C12", "page_too_large", "ListTopicSubscriptions page_size=%d returned %d items", page, len(lr.Subscriptions))
		}
		got = append(got, lr.Subscriptions...)
		pages++
		if lr.NextPageToken == "" {
			break
		}
		if pages > 200 {
			return viol("C12", "list_never_ends", "ListTopicSubscriptions did not end after 200 pages")
		}
		token = lr.NextPageToken
	}
	var want []string
	for n, s := range r.m.subs {
		if s.topic == tn {
			want = append(want, n)
		}
	}
	sort.Strings(want)
	sort.Strings(got)
	r.ev("ListTopicSubscriptions %s page=%d -> %d items", tn, page, len(got))
	if strings.Join(want, "\n") != strings.Join(got, "\n") {
		return viol("C12", "list_topic_subscriptions", "ListTopicSubscriptions %s (page_size=%d) returned %q, live set is %q", tn, page, got, want)
	}
	return nil
}

func (r *nmRun) publishProbe() *Violation {
	var tns []string
	for n := range r.m.topics {
		tns = append(tns, n)
	}
	if len(tns) == 0 {
		return nil
	}
	sort.Strings(tns)
	tn := tns[r.t.Intn(len(tns))]
	r.stats["probe_seq"]++
	marker := fmt.Sprintf(`{"probe":%d}`, r.stats["probe_seq"])
	resp, err := r.call("Publish", &pubsubpb.PublishRequest{Topic: tn, Messages: []*pubsubpb.PubsubMessage{{Data: []byte(marker), Attributes: map[string]string{"kind": "a"}}}})
	if v := r.expect("Publish "+tn, err, codes.OK); v != nil {
		return v
	}
	id, v := oneMessageID(resp)
	if v != nil {
		return v
	}
	r.ev("Publish probe %s to %s", marker, tn)
	var sns []string
	for n := range r.m.subs {
		sns = append(sns, n)
	}
	sort.Strings(sns)
	for _, sn := range sns {
		presp, perr := r.call("Pull", &pubsubpb.PullRequest{Subscription: sn, MaxMessages: 1000, ReturnImmediately: true})
		if v := r.expect("Pull "+sn, perr, codes.OK); v != nil {
			return v
		}
		found := false
		var ids []string
		for _, rm := range presp.(*pubsubpb.PullResponse).ReceivedMessages {
			ids = append(ids, rm.AckId)
			if rm.Message.MessageId == id {
				found = true
			}
		}
		should := r.m.subs[sn].topic == tn
		if found != should {
			return viol("C12", "routing_by_name", "message published to %s: subscription %s (topic %s) received=%v expected=%v", tn, sn, r.m.subs[sn].topic, found, should)
		}
		if len(ids) > 0 {
			if _, aerr := r.call("Acknowledge", &pubsubpb.AcknowledgeRequest{Subscription: sn, AckIds: ids}); aerr != nil {
				return viol("C03", "status", "Acknowledge returned %v", aerr)
			}
		}
	}
	return nil
}

func runNames(t *testing.T, tape *Tape, w *World, variant string, steps int, out *runOutcome) {
	r := &nmRun{t: tape, w: w, m: &nmModel{topics: map[string]bool{}, subs: map[string]*nmSub{}, snaps: map[string]string{}}, stats: map[string]int{}, hash: map[uint64]bool{}}
	tape.Frame()
	S.tick = time.Microsecond
	for i := 0; i < steps; i++ {
		if tape.Exhausted() {
			break
		}
		if v := r.step(); v != nil {
			out.v = v
			break
		}
		// abstract state: sizes per project
		h := uint64(1469598103934665603)
		for _, p := range nmProjects {
			c := 0
			for n := range r.m.topics {
				if strings.HasPrefix(n, p+"/") {
					c++
				}
			}
			for n := range r.m.subs {
				if strings.HasPrefix(n, p+"/") {
					c += 16
				}
			}
			for n := range r.m.snaps {
				if strings.HasPrefix(n, p+"/") {
					c += 256
				}
			}
			h = (h ^ uint64(c)) * 1099511628211
		}
		r.hash[h] = true
	}
	// final sweep: every project, every kind, page size 1 and 2
	if out.v == nil {
		for _, kind := range []string{"topics", "subscriptions", "snapshots"} {
			tape.Frame()
			if v := r.listKind(kind); v != nil {
				out.v = v
				break
			}
		}
	}
	delete(r.stats, "probe_seq")
	st := map[string]int{}
	for k, v := range r.stats {
		if !strings.HasPrefix(k, "deleted:") {
			st[k] = v
		}
	}
	out.trace, out.stats, out.hashes = r.trace, st, r.hash
	out.header = 1
	out.sample = sampleOf(r.trace)
}

func init() { engines["names"] = runNames }
