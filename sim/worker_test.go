package sim

// Worker entry point. The orchestrator (/verif/check) builds this package as a test binary
// (testing/synctest needs *testing.T) and runs one OS process per worker.

import (
	"crypto/sha256"
	"encoding/json"
	"fmt"
	"os"
	"runtime"
	"runtime/debug"
	"sort"
	"strconv"
	"strings"
	"sync/atomic"
	"testing"
	"testing/synctest"
	"time"

	"go.6river.tech/mmmbbb/actions"
	"go.6river.tech/mmmbbb/faults"
	"go.6river.tech/mmmbbb/services"
)

type FoundViolation struct {
	Violation
	Seed    int64     `json:"seed"`
	Profile string    `json:"profile"`
	Steps   int       `json:"steps"`
	Header  int       `json:"header_frames"`
	Frames  [][]int64 `json:"frames"`
	Trace   []string  `json:"trace"`
}

type WorkerResult struct {
	Profile     string            `json:"profile"`
	Runs        int               `json:"runs"`
	Steps       int               `json:"steps"`
	Truncated   int               `json:"truncated"`
	Violations  []FoundViolation  `json:"violations"`
	Stats       map[string]int    `json:"stats"`
	Probes      map[string]int    `json:"probes"`
	Hashes      []string          `json:"hashes"`
	SchedHashes []string          `json:"sched_hashes"`
	VirtualSec  float64           `json:"virtual_seconds"`
	WallSec     float64           `json:"wall_s"`
	Samples     []any             `json:"samples"`
	Harness     []string          `json:"harness_errors"`
	LogHashes   map[string]string `json:"log_hashes,omitempty"`
	Known       map[string]string `json:"known_hits,omitempty"`
	KnownCount  map[string]int    `json:"known_count,omitempty"`
}

type runOutcome struct {
	v         *Violation
	frames    [][]int64
	header    int
	trace     []string
	steps     int
	stats     map[string]int
	probes    map[string]int
	hashes    map[uint64]bool
	sched     string
	virtual   time.Duration
	harness   string
	logDigest string
	sample    any
	known     map[string]string
}

var knownSigs = map[string]bool{}

func loadKnown() {
	p := os.Getenv("VERIF_KNOWN")
	if p == "" {
		return
	}
	b, err := os.ReadFile(p)
	if err != nil {
		return
	}
	var kf struct {
		Findings []struct {
			Signature string `json:"signature"`
			Status    string `json:"status"`
		} `json:"findings"`
	}
	if json.Unmarshal(b, &kf) != nil {
		return
	}
	for _, f := range kf.Findings {
		if f.Status == "known" && f.Signature != "" {
			knownSigs[f.Signature] = true
		}
	}
}

func envInt(k string, d int) int {
	if v := os.Getenv(k); v != "" {
		if n, err := strconv.Atoi(v); err == nil {
			return n
		}
	}
	return d
}

// runOne executes one simulated run in a fresh bubble.
func runOne(t *testing.T, dir, profile string, seed int64, steps int, replay [][]int64) (out runOutcome) {
	var tape *Tape
	if replay != nil {
		tape = ReplayTape(replay)
	} else {
		tape = NewTape(seed)
	}
	// (the orchestrator reads this line to attribute a crash of the whole process to a run)
	fmt.Fprintf(os.Stderr, "VERIF-RUN %s %d %d\n", profile, seed, steps)
	S = NewSim(time.Microsecond)
	actions.VerifYield = func() { S.YieldG("lock") }
	services.VerifYield = func() { S.YieldG("lock") }
	faults.VerifYield = nil
	parts := strings.SplitN(profile, ":", 2)
	engine, variant := parts[0], ""
	if len(parts) > 1 {
		variant = parts[1]
	}
	done := make(chan struct{})
	earlyVerdict.Store(nil)
	// out-of-bubble watchdog. A run whose engine has already reached a verdict (SetEarlyVerdict)
	// and then cannot shut the simulated server down (a wedged service never lets the bubble
	// drain) is not harness trouble: the verdict is printed for the orchestrator and the
	// process ends.
	go func() {
		start := time.Now()
		var seenAt time.Time
		for {
			select {
			case <-done:
				return
			case <-time.After(time.Second):
			}
			if ev := earlyVerdict.Load(); ev != nil && seenAt.IsZero() {
				seenAt = time.Now()
			} else if ev != nil && time.Since(seenAt) > 20*time.Second {
				b, _ := json.Marshal(ev.v)
				fmt.Fprintf(os.Stderr, "VERIF-WEDGED %s\n", b)
				os.Exit(3)
			}
			if time.Since(start) > 120*time.Second {
				buf := make([]byte, 1<<20)
				n := runtime.Stack(buf, true)
				fmt.Fprintf(os.Stderr, "WATCHDOG: run %s seed %d stuck\n%s\n", profile, seed, buf[:n])
				os.Exit(2)
			}
		}
	}()
	defer close(done)
	synctest.Test(t, func(t *testing.T) {
		defer func() {
			if r := recover(); r != nil {
				msg := fmt.Sprint(r)
				if strings.HasPrefix(msg, "HARNESS:") {
					out.harness = msg
				} else if fr := panicOrigin(string(debug.Stack())); strings.HasPrefix(fr, "go.6river.tech/mmmbbb/") {
					// raised by mmmbbb's own code, called directly by the harness (a maintenance
					// job, a service hook): the server would have terminated
					out.v = viol("C16", "panic_in_server_code", "panic: %s (raised in %s)", msg, fr)
				} else {
					out.harness = "HARNESS: unexpected panic: " + msg + "\n" + string(debug.Stack())
				}
			}
		}()
		w, err := NewWorld(dir, seed*7919+13)
		if err != nil {
			panic("HARNESS: world: " + err.Error())
		}
		defer func() {
			S.ReleaseAll()
			w.Close()
			actions.WakeAllInternal()
			S.Settle()
		}()
		start := time.Now()
		switch engine {
		case "hist":
			r := &Run{T: tape, W: w, M: NewModel(), Sim: S, Variant: variant, Stats: map[string]int{}, Hashes: map[uint64]bool{}}
			r.M.KnownSigs = knownSigs
			out.v = RunHist(r, steps)
			if out.v != nil && os.Getenv("VERIF_DUMP_ON_VIOL") != "" {
				d, _ := w.Dump(false)
				r.Trace = append(r.Trace, strings.Split(d, "\n")...)
			}
			out.known = r.M.KnownHits
			out.trace, out.stats, out.probes, out.hashes = r.Trace, r.Stats, r.M.Probes, r.Hashes
			out.header = r.header
			out.sample = sampleOf(r.Trace)
		default:
			if f, ok := engines[engine]; ok {
				f(t, tape, w, variant, steps, &out)
				if out.v != nil && os.Getenv("VERIF_DUMP_ON_VIOL") != "" {
					d, _ := w.Dump(false)
					out.trace = append(out.trace, strings.Split(d, "\n")...)
				}
			} else {
				panic("HARNESS: unknown engine " + engine)
			}
		}
		out.virtual = time.Since(start)
		if n, win, spun := S.Ticks(); true {
			if out.stats == nil {
				out.stats = map[string]int{}
			}
			if int(n) > out.stats["max_driver_events_per_run"] {
				out.stats["max_driver_events_per_run"] = int(n)
			}
			if int(win) > out.stats["max_driver_events_per_window"] {
				out.stats["max_driver_events_per_window"] = int(win)
			}
			if spun {
				out.stats["runs_with_escalated_tick"]++
			}
		}
		for k, v := range S.Stats {
			if out.stats == nil {
				out.stats = map[string]int{}
			}
			out.stats[k] += v
		}
	})
	out.frames = tape.Frames()
	out.steps = len(out.frames)
	h := sha256.New()
	for _, l := range out.trace {
		h.Write([]byte(l))
		h.Write([]byte{'\n'})
	}
	for _, l := range S.Log {
		h.Write([]byte(l))
		h.Write([]byte{'\n'})
	}
	out.logDigest = fmt.Sprintf("%x", h.Sum(nil)[:8])
	hs := sha256.New()
	for _, l := range S.Log {
		if i := strings.Index(l, " "); i >= 0 {
			hs.Write([]byte(l[i:]))
		}
	}
	out.sched = fmt.Sprintf("%x", hs.Sum(nil)[:8])
	return
}

type engineFunc func(t *testing.T, tape *Tape, w *World, variant string, steps int, out *runOutcome)

var engines = map[string]engineFunc{}

func sampleOf(trace []string) any {
	n := len(trace)
	if n > 40 {
		n = 40
	}
	return trace[:n]
}

func tail(l []string, n int) []string {
	if len(l) > n {
		return l[len(l)-n:]
	}
	return l
}

func TestWorker(t *testing.T) {
	profile := os.Getenv("VERIF_PROFILE")
	if profile == "" {
		t.Skip("no VERIF_PROFILE")
	}
	debug.SetGCPercent(400)
	loadKnown()
	dir := os.Getenv("VERIF_SCRATCH")
	if dir == "" {
		dir = t.TempDir()
	}
	dir, _ = os.MkdirTemp(dir, "w")
	defer os.RemoveAll(dir)
	seed0 := int64(envInt("VERIF_SEED0", 1))
	stride := int64(envInt("VERIF_STRIDE", 1))
	nruns := envInt("VERIF_NRUNS", 10)
	steps := envInt("VERIF_STEPS", 80)
	budget := time.Duration(envInt("VERIF_BUDGET_S", 3600)) * time.Second
	outPath := os.Getenv("VERIF_OUT")
	maxViol := envInt("VERIF_MAXVIOL", 3)
	res := WorkerResult{Profile: profile, Stats: map[string]int{}, Probes: map[string]int{}}
	if os.Getenv("VERIF_LOGHASH") != "" {
		res.LogHashes = map[string]string{}
	}
	hashes := map[uint64]bool{}
	scheds := map[string]bool{}
	wallStart := time.Now()

	if rp := os.Getenv("VERIF_REPLAY"); rp != "" {
		b, err := os.ReadFile(rp)
		if err != nil {
			t.Fatal(err)
		}
		var fv FoundViolation
		if err := json.Unmarshal(b, &fv); err != nil {
			t.Fatal(err)
		}
		frames := fv.Frames
		if os.Getenv("VERIF_MINIMIZE") != "" {
			frames = minimize(t, dir, fv, time.Duration(envInt("VERIF_MIN_BUDGET_S", 60))*time.Second)
		}
		o := runOne(t, dir, fv.Profile, fv.Seed, fv.Steps, frames)
		res.Runs = 1
		if o.harness != "" {
			res.Harness = append(res.Harness, o.harness)
		}
		if o.v != nil {
			res.Violations = append(res.Violations, FoundViolation{Violation: *o.v, Seed: fv.Seed, Profile: fv.Profile, Steps: fv.Steps, Header: o.header, Frames: frames, Trace: tail(o.trace, 400)})
		}
		if len(o.known) > 0 {
			res.Known, res.KnownCount = map[string]string{}, map[string]int{}
			for k, v := range o.known {
				res.Known[k] = v
				res.KnownCount[k]++
			}
		}
		if os.Getenv("VERIF_VERBOSE") != "" {
			for _, l := range o.trace {
				fmt.Println(l)
			}
			if o.v != nil {
				fmt.Println("VIOLATION:", o.v.Error())
			}
		}
		writeResult(outPath, &res, wallStart)
		return
	}

	for i := 0; i < nruns; i++ {
		if time.Since(wallStart) > budget {
			break
		}
		seed := seed0 + int64(i)*stride
		o := runOne(t, dir, profile, seed, steps, nil)
		if os.Getenv("VERIF_PRINT_TRACE") != "" {
			fmt.Fprintf(os.Stderr, "TRACE seed %d\n%s\n", seed, strings.Join(o.trace, "\n"))
		}
		res.Runs++
		res.Steps += o.steps
		res.VirtualSec += o.virtual.Seconds()
		for k, v := range o.stats {
			if strings.HasPrefix(k, "max_") {
				if v > res.Stats[k] {
					res.Stats[k] = v
				}
				continue
			}
			res.Stats[k] += v
		}
		for k, v := range o.probes {
			res.Probes[k] += v
		}
		for h := range o.hashes {
			hashes[h] = true
		}
		scheds[o.sched] = true
		for k, v := range o.known {
			if res.Known == nil {
				res.Known, res.KnownCount = map[string]string{}, map[string]int{}
			}
			if _, ok := res.Known[k]; !ok {
				res.Known[k] = fmt.Sprintf("seed %d: %s", seed, v)
			}
			res.KnownCount[k]++
		}
		if res.LogHashes != nil {
			res.LogHashes[strconv.FormatInt(seed, 10)] = o.logDigest
			if d := os.Getenv("VERIF_DUMPDIR"); d != "" {
				os.WriteFile(fmt.Sprintf("%s/%d.log", d, seed), []byte(strings.Join(o.trace, "\n")+"\n--\n"+strings.Join(S.Log, "\n")), 0o644)
			}
		}
		if len(res.Samples) < 2 && o.sample != nil {
			res.Samples = append(res.Samples, map[string]any{"seed": seed, "profile": profile, "events": o.sample})
		}
		if o.harness != "" {
			res.Harness = append(res.Harness, fmt.Sprintf("seed %d: %s", seed, o.harness))
			if len(res.Harness) > 3 {
				break
			}
			continue
		}
		if o.v != nil {
			res.Violations = append(res.Violations, FoundViolation{Violation: *o.v, Seed: seed, Profile: profile, Steps: steps, Header: o.header, Frames: o.frames, Trace: tail(o.trace, 400)})
			if len(res.Violations) >= maxViol {
				break
			}
		}
		if i%50 == 49 {
			runtime.GC()
		}
	}
	for h := range hashes {
		res.Hashes = append(res.Hashes, strconv.FormatUint(h, 16))
	}
	sort.Strings(res.Hashes)
	for h := range scheds {
		res.SchedHashes = append(res.SchedHashes, h)
	}
	sort.Strings(res.SchedHashes)
	writeResult(outPath, &res, wallStart)
}

func writeResult(path string, res *WorkerResult, start time.Time) {
	res.WallSec = time.Since(start).Seconds()
	b, _ := json.Marshal(res)
	if path == "" {
		fmt.Println(string(b))
		return
	}
	if err := os.WriteFile(path, b, 0o644); err != nil {
		fmt.Fprintln(os.Stderr, "cannot write result:", err)
		os.Exit(2)
	}
}

// minimize: delta debugging on frames after the header, keeping (property, oracle).
func minimize(t *testing.T, dir string, fv FoundViolation, budget time.Duration) [][]int64 {
	start := time.Now()
	same := func(fr [][]int64) bool {
		o := runOne(t, dir, fv.Profile, fv.Seed, fv.Steps, fr)
		return o.harness == "" && o.v != nil && o.v.Prop == fv.Prop && o.v.Oracle == fv.Oracle
	}
	cur := fv.Frames
	if !same(cur) {
		return cur
	}
	hdr := fv.Header
	if hdr > len(cur) {
		hdr = len(cur)
	}
	// 1. truncate the tail (replay reads zeros past the end: no more generated steps)
	for n := len(cur) - hdr; n >= 1 && time.Since(start) < budget; n /= 2 {
		for len(cur)-n >= hdr && time.Since(start) < budget {
			cand := append([][]int64(nil), cur[:len(cur)-n]...)
			if same(cand) {
				cur = cand
			} else {
				break
			}
		}
	}
	// 2. delete chunks
	for chunk := (len(cur) - hdr) / 2; chunk >= 1 && time.Since(start) < budget; chunk /= 2 {
		for i := hdr; i+chunk <= len(cur) && time.Since(start) < budget; {
			cand := append(append([][]int64(nil), cur[:i]...), cur[i+chunk:]...)
			if same(cand) {
				cur = cand
			} else {
				i += chunk
			}
		}
	}
	// 3. zero arguments of frames (keep the op selector = first value)
	for i := hdr; i < len(cur) && time.Since(start) < budget; i++ {
		for j := 1; j < len(cur[i]); j++ {
			if cur[i][j] == 0 {
				continue
			}
			cand := make([][]int64, len(cur))
			copy(cand, cur)
			fr := append([]int64(nil), cur[i]...)
			fr[j] = 0
			cand[i] = fr
			if same(cand) {
				cur = cand
			}
		}
	}
	return cur
}

// panicOrigin returns the function that called panic (the first frame below runtime's panic
// machinery in a stack captured inside a deferred recover).
func panicOrigin(stack string) string {
	lines := strings.Split(stack, "\n")
	for i, l := range lines {
		if strings.HasPrefix(l, "panic(") {
			// next function line after the "panic(...)" frame and its file line
			for j := i + 2; j < len(lines); j += 2 {
				f := strings.TrimSpace(lines[j])
				if f == "" || strings.HasPrefix(f, "runtime.") {
					continue
				}
				if k := strings.LastIndex(f, "("); k > 0 {
					f = f[:k]
				}
				return f
			}
		}
	}
	return ""
}

type earlyV struct {
	v *Violation
}

var earlyVerdict atomic.Pointer[earlyV]

// SetEarlyVerdict records a violation an engine has established before it starts to shut the
// simulated server down (the watchdog, outside the bubble, times the rest on the real clock).
func SetEarlyVerdict(v *Violation) {
	if v != nil {
		earlyVerdict.Store(&earlyV{v: v})
		b, _ := json.Marshal(v)
		fmt.Fprintf(os.Stderr, "VERIF-VERDICT %s\n", b)
	}
}
