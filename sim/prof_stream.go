package sim

// stream (C11, also C03/C10 for streaming): StreamingPull clients with flow-control limits,
// publishers, on-stream acks and nacks, external Acknowledge calls, all interleaved by the
// tape at transaction boundaries and at the simulated SendMsg.
// Invariant at every SendMsg: outstanding <= max messages, bytes <= max bytes (single
// oversized message allowed when nothing else is outstanding). At quiescence (no clock
// advance beyond one second): the stream may not sit idle with capacity and deliverable
// messages both available.

import (
	"context"
	"fmt"
	"sort"
	"strings"
	"testing"
	"time"

	"google.golang.org/grpc/codes"

	"go.6river.tech/mmmbbb/grpc/pubsubpb"
)

type strClient struct {
	id          string
	sub         *MSub
	in          chan *pubsubpb.StreamingPullRequest
	maxMsgs     int
	maxBytes    int
	outstanding map[string]int // ack id -> size
	order       []string
	freed       bool // capacity was freed by ack / nack / external ack
	task        *ctask
	err         error
	ended       bool
	sends       int
}

func (c *strClient) bytes() int {
	n := 0
	for _, s := range c.outstanding {
		n += s
	}
	return n
}

type seqOp struct {
	seq   int
	apply func() *Violation
}

func runStream(t *testing.T, tape *Tape, w *World, variant string, steps int, out *runOutcome) {
	r := newSetupRun(tape, w, "stream")
	out.stats = r.Stats
	defer func() {
		out.trace, out.probes, out.hashes = r.Trace, r.M.Probes, r.Hashes
		out.sample = sampleOf(r.Trace)
	}()
	tape.Frame()
	r.nTopics, r.nSubs = 1, 2
	if v := r.xTopic(0); v != nil {
		out.v = v
		return
	}
	ordered := tape.Bool(25)
	for i := 0; i < 2; i++ {
		if v := r.xSub(i, 0, func(c *SubCfg, q *pubsubpb.Subscription) {
			if i == 0 && ordered {
				c.Ordered, q.EnableMessageOrdering = true, true
			}
		}); v != nil {
			out.v = v
			return
		}
	}
	sizes := []int{24, 100, 1000, 4096}
	pubOne := func(ctx context.Context, who string) (func() *Violation, error) {
		n := sizes[tape.Intn(len(sizes))]
		key := ""
		if ordered && tape.Bool(50) {
			key = []string{"K1", "K2"}[tape.Intn(2)]
		}
		// exact payload length n (>= 24), so that byte limits can be hit exactly
		head := fmt.Sprintf(`{"n":%d,"p":"`, 1000000+tape.Intn(9000000))
		if n < len(head)+2 {
			n = len(head) + 2
		}
		data := []byte(head + strings.Repeat("x", n-len(head)-2) + `"}`)
		return r.pubRaw(ctx, who, 0, data, nil, key)
	}
	// initial backlog (sequential)
	nb := tape.Intn(6)
	for i := 0; i < nb; i++ {
		ap, err := pubOne(context.Background(), "setup")
		if err != nil {
			out.v = viol("C12", "status", "setup publish: %v", err)
			return
		}
		if v := ap(); v != nil {
			out.v = v
			return
		}
	}
	sub := r.M.LiveSub(subName(0))
	// some of the backlog is first taken by a unary pull; its ack ids go into the opening
	// frame of the stream (a reconnecting client flushing its pending acks)
	var firstAcks []string
	if nb > 0 && tape.Bool(40) {
		resp, res := r.do("Pull", &pubsubpb.PullRequest{Subscription: sub.Name, MaxMessages: int32(1 + tape.Intn(3)), ReturnImmediately: true})
		if res.err != nil {
			out.v = viol("C12", "status", "setup pull: %v", res.err)
			return
		}
		recv := toRecv(resp.(*pubsubpb.PullResponse).ReceivedMessages)
		if v := r.M.Pull(sub, 1000, recv, res.t0, res.t1); v != nil {
			out.v = v
			return
		}
		for _, x := range recv {
			firstAcks = append(firstAcks, x.AckID)
		}
		r.ev("setup Pull -> %s (acked in the opening frame)", r.descIDs(firstAcks))
	}
	out.header = len(tape.marks)
	tape.Frame()
	r.ev("---- concurrent phase (stream on %s ordered=%v)", sub.Name, ordered)
	r.M.Concurrent = true
	S.on = true
	c := &conc{t: tape}
	var pending []seqOp
	var firstViol *Violation
	fail := func(v *Violation) {
		if firstViol == nil && v != nil {
			firstViol = v
		}
	}
	// ---- stream clients
	nStreams := 1
	if tape.Bool(20) {
		nStreams = 2
	}
	var clients []*strClient
	for si := 0; si < nStreams; si++ {
		cl := &strClient{id: fmt.Sprintf("stream%d", si), sub: sub, in: make(chan *pubsubpb.StreamingPullRequest, 64), outstanding: map[string]int{}}
		cl.maxMsgs = 1 + tape.Intn(8)
		byteChoices := []int{0, 50, 100, 124, 200, 1000, 1024, 1100, 2000, 4096, 4196, 5000, 5120, 20000}
		cl.maxBytes = byteChoices[tape.Intn(len(byteChoices))]
		first := &pubsubpb.StreamingPullRequest{Subscription: sub.Name, StreamAckDeadlineSeconds: 10, MaxOutstandingMessages: int64(cl.maxMsgs), MaxOutstandingBytes: int64(cl.maxBytes), ClientId: cl.id}
		effBytes := cl.maxBytes
		if effBytes <= 0 {
			effBytes = 10 * 1024 * 1024
		}
		cl.maxBytes = effBytes
		if si == 0 && len(firstAcks) > 0 {
			first.AckIds = firstAcks
			ids := firstAcks
			t0 := time.Now()
			pending = append(pending, seqOp{S.commitSeq, func() *Violation { r.M.Ack(nil, ids, t0, t0); return nil }})
			r.Stats["first_frame_acks"]++
		}
		cl.in <- first
		r.ev("%s: StreamingPull max_messages=%d max_bytes=%d", cl.id, cl.maxMsgs, cl.maxBytes)
		clients = append(clients, cl)
		cl.task = c.spawn(cl.id, func(ctx context.Context) {
			fs := &fakeStream{ctx: ctx, in: cl.in, sent: func(resp *pubsubpb.StreamingPullResponse) {
				cl.sends++
				recv := toRecv(resp.ReceivedMessages)
				already := len(cl.outstanding)
				alreadyBytes := cl.bytes()
				var d []string
				add := 0
				for _, x := range recv {
					add += len(x.Data)
					if mm := r.M.Msgs[x.MsgID]; mm != nil {
						d = append(d, fmt.Sprintf("m%d#%d(%dB)", mm.Seq, x.Attempt, len(x.Data)))
					} else {
						d = append(d, fmt.Sprintf("m?(%dB)", len(x.Data)))
					}
				}
				r.ev("%s <- [%s] (outstanding before: %d msgs %d B)", cl.id, strings.Join(d, " "), already, alreadyBytes)
				for _, x := range recv {
					if _, dup := cl.outstanding[x.AckID]; dup {
						fail(viol("C11", "resent_while_outstanding", "%s: ack id %s sent again while still outstanding on the same stream", cl.id, x.AckID))
					}
					cl.outstanding[x.AckID] = len(x.Data)
					cl.order = append(cl.order, x.AckID)
				}
				if len(cl.outstanding) > cl.maxMsgs {
					fail(viol("C11", "max_outstanding_messages", "%s: %d messages outstanding after a send, limit %d", cl.id, len(cl.outstanding), cl.maxMsgs))
				}
				if tot := cl.bytes(); tot > cl.maxBytes && !(already == 0 && len(recv) == 1) {
					fail(viol("C11", "max_outstanding_bytes", "%s: %d bytes outstanding after a send of %d message(s) with %d already outstanding, limit %d", cl.id, tot, len(recv), already, cl.maxBytes))
				}
				seq := S.commitSeq
				t1 := time.Now()
				pending = append(pending, seqOp{seq, func() *Violation { return r.M.Pull(sub, 1<<30, recv, t1.Add(-time.Millisecond), t1) }})
			}}
			cl.err = w.StreamingPull(fs)
			cl.ended = true
			r.ev("%s ended: %v", cl.id, cl.err)
		})
	}
	externalOnly := tape.Bool(30)
	// storage-fault runs: right after one external Acknowledge has committed, the next few
	// statements fail (that is when the stream re-reads which of its outstanding deliveries
	// are still pending). Whatever is hit fails cleanly: an RPC returns an error and changes
	// nothing, the stream ends with the error (a client reconnects) - what may not happen is
	// a stream that stays open and stalled with capacity and deliverable messages.
	// nackMostly: the client keeps nacking single deliveries on the stream (each is due again at
	// once and comes back while the stream is still busy with the nack)
	nackMostly := !externalOnly && tape.Bool(25)
	// (not with acks in the opening frame: a stream that dies of the fault before it has
	// applied them leaves "acknowledged or not" open, everything else here is explicit)
	faultRun := externalOnly && len(clients) == 1 && len(firstAcks) == 0 && tape.Bool(45)
	faultArmed := false
	injected := func(err error) bool {
		return faultRun && faultArmed && err != nil && strings.Contains(err.Error(), errInjected.Error())
	}
	// ---- publishers
	np := tape.Intn(4)
	if nackMostly {
		np += 2 // keep the backlog above what the flow control admits
	}
	for i := 0; i < np; i++ {
		id := fmt.Sprintf("pub%d", i)
		n := 1 + tape.Intn(3)
		c.spawn(id, func(ctx context.Context) {
			for k := 0; k < n; k++ {
				ap, err := pubOne(ctx, id)
				if injected(err) {
					r.ev("%s: publish failed under the injected storage fault: %v", id, err)
					continue
				}
				if err != nil {
					fail(viol("C12", "status", "%s: %v", id, err))
					return
				}
				pending = append(pending, seqOp{S.TaskCommit(id), ap})
				S.Yield(ctx, "round")
			}
		})
	}
	// ---- client actors: acks / nacks on the stream, external acks
	na := 1 + tape.Intn(3)
	for i := 0; i < na; i++ {
		id := fmt.Sprintf("actor%d", i)
		rounds := 2 + tape.Intn(8)
		if externalOnly {
			rounds += 6
		}
		c.spawn(id, func(ctx context.Context) {
			for k := 0; k < rounds; k++ {
				S.Yield(ctx, "round")
				cl := clients[tape.Intn(len(clients))]
				if len(cl.outstanding) == 0 || cl.ended {
					continue
				}
				// choose a subset of outstanding ids (deterministic order)
				var ids []string
				for _, a := range cl.order {
					if _, ok := cl.outstanding[a]; ok && tape.Bool(60) {
						ids = append(ids, a)
					}
				}
				if len(ids) == 0 {
					continue
				}
				kind := tape.Intn(4)
				if nackMostly && tape.Bool(80) {
					kind = 2
					if len(ids) > 1 && tape.Bool(60) {
						ids = ids[:1]
					}
				}
				if externalOnly {
					kind = 3
					if len(ids) > 1 && tape.Bool(70) {
						ids = ids[:1] // many small separate ack transactions
					}
				}
				sizeOf := map[string]int{}
				for _, a := range ids {
					sizeOf[a] = cl.outstanding[a]
					delete(cl.outstanding, a)
				}
				cl.freed = true
				issue := S.commitSeq
				t0 := time.Now()
				switch kind {
				case 0, 1:
					cl.in <- &pubsubpb.StreamingPullRequest{AckIds: ids}
					r.ev("%s: ack on %s %s", id, cl.id, r.descIDs(ids))
					pending = append(pending, seqOp{issue, func() *Violation { r.M.Ack(nil, ids, t0, t0); return nil }})
				case 2:
					secs := make([]int32, len(ids))
					cl.in <- &pubsubpb.StreamingPullRequest{ModifyDeadlineAckIds: ids, ModifyDeadlineSeconds: secs}
					r.ev("%s: nack (deadline 0) on %s %s", id, cl.id, r.descIDs(ids))
					r.Stats["stream_nack"]++
					pending = append(pending, seqOp{issue, func() *Violation { r.M.ModAck(nil, ids, 0, t0, t0); return nil }})
				default:
					_, err := w.Call(ctx, "Acknowledge", &pubsubpb.AcknowledgeRequest{Subscription: sub.Name, AckIds: ids})
					t1 := time.Now()
					r.ev("%s: external Acknowledge %s -> %v", id, r.descIDs(ids), code(err))
					if injected(err) {
						// failed cleanly: nothing acknowledged, the client still holds them
						for _, a := range ids {
							cl.outstanding[a] = sizeOf[a]
						}
						continue
					}
					if err != nil {
						fail(viol("C03", "status", "Acknowledge: %v", err))
						return
					}
					pending = append(pending, seqOp{S.TaskCommit(id), func() *Violation { r.M.Ack(nil, ids, t0, t1); return nil }})
					if faultRun && !faultArmed && tape.Bool(50) {
						faultArmed = true
						k := 1 + tape.Intn(3)
						S.Arm(FaultStmtErr, k, nil)
						r.Stats["armed_"+FaultStmtErr.String()]++
						r.ev("%s: storage fault armed at driver event %d after this acknowledgement", id, k)
					}
				}
			}
		})
	}
	flush := func() *Violation {
		sort.SliceStable(pending, func(a, b int) bool { return pending[a].seq < pending[b].seq })
		for _, op := range pending {
			if v := op.apply(); v != nil {
				return v
			}
		}
		pending = nil
		return nil
	}
	after := func() *Violation { return firstViol }
	// the streamer may busy-loop (strict-bytes fetch that finds nothing that fits returns at
	// once and is retried immediately); that is not a stall, but it never goes quiet. Treat
	// "every client task finished and 400 scheduler steps without a send" as quiescent.
	lastSends, lastStep := -1, 0
	c.idle = func() bool {
		tot := 0
		for _, cl := range clients {
			tot += cl.sends
		}
		for _, tk := range c.tasks {
			isStream := false
			for _, cl := range clients {
				if cl.task == tk {
					isStream = true
				}
			}
			if !isStream && !tk.done {
				lastSends, lastStep = tot, c.steps
				return false
			}
		}
		if tot != lastSends {
			lastSends, lastStep = tot, c.steps
			return false
		}
		if c.steps-lastStep > 400 {
			r.Stats["stream_spinning_at_quiescence"]++
			lastStep = c.steps
			return true
		}
		return false
	}
	v, ok := c.run(8000, after)
	if !ok {
		r.Stats["truncated"]++
	}
	faultFired := false
	if faultArmed {
		if _, faultFired = S.Disarm(); faultFired {
			r.Stats["fired_"+FaultStmtErr.String()]++
		}
	}
	if v == nil && ok {
		// quiescent. allow one second (all retry timers of this scenario are >= 30 s)
		time.Sleep(time.Second)
		S.Settle()
		v, _ = c.run(6000, after)
		if v == nil {
			v = flush()
		}
		if v == nil {
			v = firstViol
		}
		if v == nil {
			now := time.Now()
			for _, cl := range clients {
				if cl.ended {
					if faultFired && cl.err != nil && strings.Contains(cl.err.Error(), errInjected.Error()) {
						r.Stats["stream_ended_by_storage_fault"]++
						continue
					}
					if code(cl.err) != codes.OK {
						v = viol("C11", "stream_died", "%s ended unexpectedly: %v", cl.id, cl.err)
					}
					continue
				}
				must := r.M.MustDeliverable(sub, now, now)
				// with two streams the other one may hold capacity for the same messages; the
				// no-stall clause is asserted per stream only when it is the only one
				if len(clients) > 1 {
					continue
				}
				r.Stats["stream_quiescent_checks"]++
				if len(must) == 0 {
					continue
				}
				out0 := len(cl.outstanding)
				remMsgs := cl.maxMsgs - out0
				remBytes := cl.maxBytes - cl.bytes()
				allFit := true
				for _, e := range must {
					if len(e.Msg.Data) > remBytes {
						allFit = false
					}
				}
				if out0 == 0 {
					v = viol("C11", "stalled_empty", "%s has nothing outstanding, yet %d deliverable message(s) are not being sent (e.g. %v); flow control %d msgs / %d bytes", cl.id, len(must), must[0], cl.maxMsgs, cl.maxBytes)
				} else if remMsgs > 0 && allFit {
					v = viol("C11", "stalled_with_capacity", "%s has %d/%d messages and %d/%d bytes outstanding, yet %d deliverable message(s) that all fit are not being sent (e.g. %v)", cl.id, out0, cl.maxMsgs, cl.bytes(), cl.maxBytes, len(must), must[0])
				} else if remMsgs > 0 {
					// some fit, some do not. Which candidates a fetch looks at when there are
					// more of them than free message slots is not specified; when every
					// possibly-due delivery fits into the free slots, one that also fits the
					// free bytes has to be sent
					may := 0
					for _, e := range sub.EDs {
						if (e.State == stOut || e.Fuzzy) && e.mayAlive(now) && e.mayDue(now) {
							may++
						}
					}
					for _, e := range must {
						if len(e.Msg.Data) <= remBytes && may <= remMsgs && may <= 100 {
							v = viol("C11", "stalled_behind_large", "%s has %d/%d messages and %d/%d bytes outstanding and %d possibly due deliveries (all within the free message slots); %v fits the free bytes but is not being sent", cl.id, out0, cl.maxMsgs, cl.bytes(), cl.maxBytes, may, e)
							break
						}
					}
				}
				if v != nil {
					break
				}
			}
		}
	}
	if v == nil && ok && len(clients) == 1 && !clients[0].ended && len(clients[0].outstanding) == clients[0].maxMsgs && tape.Bool(60) {
		// the client sits at its message limit and EXTENDS the ack deadline of everything it
		// holds (on the stream or with the unary RPC); long after the original deadlines have
		// passed a new message is published: what the client holds is sent, not acknowledged,
		// not nacked and not expired - it still counts, nothing more may be sent
		cl := clients[0]
		var ids []string
		for _, a := range cl.order {
			if _, held := cl.outstanding[a]; held {
				ids = append(ids, a)
			}
		}
		const ext = 600
		t0 := time.Now()
		how := "on the stream"
		if tape.Bool(50) {
			secs := make([]int32, len(ids))
			for i := range secs {
				secs[i] = ext
			}
			cl.in <- &pubsubpb.StreamingPullRequest{ModifyDeadlineAckIds: ids, ModifyDeadlineSeconds: secs}
		} else {
			how = "with ModifyAckDeadline"
			if _, err := w.Call(context.Background(), "ModifyAckDeadline", &pubsubpb.ModifyAckDeadlineRequest{Subscription: sub.Name, AckIds: ids, AckDeadlineSeconds: ext}); err != nil {
				v = viol("C04", "status", "ModifyAckDeadline: %v", err)
			}
		}
		if v == nil {
			v, _ = c.run(4000, after)
		}
		if v == nil {
			r.ev("client extends the deadline of %s by %d s %s", r.descIDs(ids), ext, how)
			r.M.ModAck(nil, ids, ext*time.Second, t0, time.Now())
			v = flush()
		}
		for k := 0; k < 45 && v == nil; k++ {
			time.Sleep(time.Second)
			S.Settle()
			v, _ = c.run(2000, after)
		}
		if v == nil {
			v = flush()
		}
		if v == nil && !cl.ended {
			ap, err := pubOne(context.Background(), "late")
			if err != nil {
				v = viol("C12", "status", "late publish: %v", err)
			} else {
				v = ap()
			}
			for round := 0; round < 2 && v == nil; round++ {
				v, _ = c.run(4000, after)
				time.Sleep(time.Second)
				S.Settle()
			}
			if v == nil {
				v = firstViol
			}
			if v == nil {
				v = flush()
			}
			r.Stats["stream_extended_deadline_phase"]++
		}
	}
	if v == nil && ok {
		// the client half-closes (CloseSend) and waits for the final status: the call has to be
		// answered (C16: every request is answered with a status, none wedges the server)
		var closed []*strClient
		for _, cl := range clients {
			if !cl.ended {
				close(cl.in)
				closed = append(closed, cl)
			}
		}
		for round := 0; round < 3 && v == nil; round++ {
			v, _ = c.run(4000, after)
			time.Sleep(time.Second)
			S.Settle()
		}
		if v == nil {
			for _, cl := range closed {
				if !cl.ended {
					v = viol("C16", "stream_not_answered", "%s: the client half-closed the stream and waited: StreamingPull was not answered with a status within 3 s of virtual time at quiescence", cl.id)
					break
				}
				r.Stats["stream_half_closed_answered"]++
			}
		}
	}
	for _, cl := range clients {
		r.Stats["stream_sends"] += cl.sends
	}
	c.finish()
	r.M.Concurrent = false
	r.Stats["conc_steps"] += c.steps
	out.v = v
	if v == nil && ok {
		// sequential epilogue: everything acknowledged on the stream stays acknowledged and
		// everything else is still delivered (completeness is back on)
		if fv := flush(); fv != nil {
			out.v = fv
			return
		}
		out.v = r.drain()
	}
}

// pubRaw publishes one message; returns the model update to apply (in commit order).
func (r *Run) pubRaw(ctx context.Context, who string, ti int, data []byte, attrs map[string]string, key string) (func() *Violation, error) {
	name := topicName(ti)
	t0 := time.Now()
	resp, err := r.W.Call(ctx, "Publish", &pubsubpb.PublishRequest{Topic: name, Messages: []*pubsubpb.PubsubMessage{{Data: data, Attributes: attrs, OrderingKey: key}}})
	t1 := time.Now()
	if err != nil {
		return nil, err
	}
	id, v := oneMessageID(resp)
	if v != nil {
		return func() *Violation { return v }, nil
	}
	mt := r.M.LiveTopic(name)
	return func() *Violation {
		m := r.M.Publish(mt, id, data, attrs, key, t0, t1)
		r.ev("%s published msg %d (%d B) key=%q", who, m.Seq, len(data), key)
		return nil
	}, nil
}

func init() { engines["stream"] = runStream }
