package sim

// World: the real mmmbbb server assembled in-process, below the transport: ent client on the
// wrapped SQLite driver, the production grpc service object (interceptor chain extracted by
// reflection), background services from services.VerifDefaultServices (overlay export).

import (
	"context"
	"database/sql"
	"fmt"
	"io"
	"math/rand"
	"os"
	"path/filepath"
	"reflect"
	"sort"
	"strings"
	"time"
	"unsafe"

	entsql "entgo.io/ent/dialect/sql"
	"github.com/google/uuid"
	"github.com/rs/zerolog"
	"google.golang.org/grpc"
	"google.golang.org/grpc/codes"
	"google.golang.org/grpc/metadata"
	"google.golang.org/grpc/status"
	"google.golang.org/protobuf/proto"

	"go.6river.tech/mmmbbb/actions"
	"go.6river.tech/mmmbbb/db"
	"go.6river.tech/mmmbbb/ent"
	_ "go.6river.tech/mmmbbb/ent/runtime"
	"go.6river.tech/mmmbbb/faults"
	mbgrpc "go.6river.tech/mmmbbb/grpc"
	"go.6river.tech/mmmbbb/grpc/pubsubpb"
	"go.6river.tech/mmmbbb/services"
)

type World struct {
	dir       string
	file      string
	dsn       string
	sqldb     *sql.DB
	Client    *ent.Client
	Faults    *faults.Set
	unaryInt  grpc.UnaryServerInterceptor
	streamInt grpc.StreamServerInterceptor
	impls     map[string]any
	restarts  int
	roConn    *sql.DB
}

// ro returns a cached harness-owned read-only connection (plain sqlite3 driver).
func (w *World) ro() (*sql.DB, error) {
	if w.roConn == nil {
		c, err := sql.Open("sqlite3", "file:"+w.file+".sqlite3?mode=ro&_busy_timeout=10000")
		if err != nil {
			return nil, err
		}
		c.SetMaxOpenConns(1)
		w.roConn = c
	}
	return w.roConn, nil
}

var runCounter int
var templateFile string

func field(v reflect.Value, name string) reflect.Value {
	f := v.FieldByName(name)
	if !f.IsValid() {
		panic("HARNESS: reflect field missing: " + name)
	}
	return reflect.NewAt(f.Type(), unsafe.Pointer(f.UnsafeAddr())).Elem()
}

// makeTemplate creates the schema once per process (outside any bubble).
func makeTemplate(dir string) error {
	if templateFile != "" {
		return nil
	}
	f := filepath.Join(dir, "template")
	dsn := db.SQLiteDSN(f, true, false)
	conn, err := sql.Open("sqlite3", dsn)
	if err != nil {
		return err
	}
	client := ent.NewClient(ent.Driver(entsql.OpenDB("sqlite3", conn)))
	if err := db.MigrateUpEnt(context.Background(), client.Schema); err != nil {
		return err
	}
	if _, err := conn.Exec("PRAGMA wal_checkpoint(TRUNCATE)"); err != nil {
		return err
	}
	client.Close()
	templateFile = f + ".sqlite3"
	return nil
}

func copyFile(src, dst string) error {
	in, err := os.Open(src)
	if err != nil {
		return err
	}
	defer in.Close()
	out, err := os.Create(dst)
	if err != nil {
		return err
	}
	if _, err := io.Copy(out, in); err != nil {
		out.Close()
		return err
	}
	return out.Close()
}

// NewWorld must be called inside the bubble. uuidSeed seeds the id stream.
func NewWorld(dir string, uuidSeed int64) (*World, error) {
	zerolog.SetGlobalLevel(zerolog.Disabled)
	if err := makeTemplateOutside(dir); err != nil {
		return nil, err
	}
	runCounter++
	w := &World{dir: dir}
	w.file = filepath.Join(dir, fmt.Sprintf("run%d", runCounter))
	if err := copyFile(templateFile, w.file+".sqlite3"); err != nil {
		return nil, err
	}
	w.dsn = db.SQLiteDSN(w.file, true, false)
	uuid.SetRand(rand.New(rand.NewSource(uuidSeed)))
	if err := w.open(); err != nil {
		return nil, err
	}
	return w, nil
}

// the template has to be created outside the bubble? sqlite work is synchronous cgo, so it
// is fine inside too; kept separate for clarity.
func makeTemplateOutside(dir string) error { return makeTemplate(dir) }

func (w *World) open() error {
	conn, err := sql.Open("simsqlite", w.dsn)
	if err != nil {
		return err
	}
	conn.SetMaxOpenConns(20)
	conn.SetMaxIdleConns(20)
	w.sqldb = conn
	w.Client = ent.NewClient(ent.Driver(entsql.OpenDB("sqlite3", conn)))
	// an autocommit read: whatever the caller does next, it does on data that may already be
	// stale, so other tasks get a turn right after the query has returned its result
	w.Client.Intercept(ent.InterceptFunc(func(next ent.Querier) ent.Querier {
		return ent.QuerierFunc(func(ctx context.Context, q ent.Query) (ent.Value, error) {
			v, err := next.Query(ctx, q)
			if S != nil {
				S.AfterEntOp()
			}
			if schedLog && err != nil {
				S.mu.Lock()
				S.Log = append(S.Log, fmt.Sprintf("    query error %v", err))
				S.mu.Unlock()
			}
			if S != nil && err == nil && ctx.Err() == nil && !queryInTx(q) {
				S.Yield(ctx, "read")
			}
			return v, err
		})
	}))
	w.Client.Use(func(next ent.Mutator) ent.Mutator {
		return ent.MutateFunc(func(ctx context.Context, m ent.Mutation) (ent.Value, error) {
			v, err := next.Mutate(ctx, m)
			if S != nil {
				S.AfterEntOp()
			}
			return v, err
		})
	})
	w.Faults = faults.NewSet(fmt.Sprintf("sim%d_%d", runCounter, w.restarts))
	svc := mbgrpc.NewGrpcService(8084, 1, nil, w.Faults, func(_ context.Context, s *grpc.Server, c *ent.Client) error {
		return services.InitializeGrpcServers(s, c, nil)
	})
	if err := svc.Initialize(context.Background(), w.Client); err != nil {
		return err
	}
	gs := field(reflect.ValueOf(svc).Elem(), "server").Interface().(*grpc.Server)
	sv := reflect.ValueOf(gs).Elem()
	w.unaryInt = field(field(sv, "opts"), "unaryInt").Interface().(grpc.UnaryServerInterceptor)
	w.streamInt = field(field(sv, "opts"), "streamInt").Interface().(grpc.StreamServerInterceptor)
	if w.unaryInt == nil || w.streamInt == nil {
		panic("HARNESS: interceptor chain not found")
	}
	svcs := field(sv, "services")
	w.impls = map[string]any{}
	for _, k := range svcs.MapKeys() {
		w.impls[k.String()] = field(svcs.MapIndex(k).Elem(), "serviceImpl").Interface()
	}
	if w.impls[pubsubpb.Publisher_ServiceDesc.ServiceName] == nil || w.impls[pubsubpb.Subscriber_ServiceDesc.ServiceName] == nil {
		panic("HARNESS: service impls not found")
	}
	return nil
}

// Restart simulates a process crash + restart: connections dropped, in-memory waiters gone,
// only the database files survive.
func (w *World) Restart() error {
	if S != nil {
		S.mu.Lock()
		S.connLost = true
		S.mu.Unlock()
	}
	w.Client.Close()
	actions.WakeAllInternal()
	if S != nil {
		S.mu.Lock()
		S.connLost = false
		S.mu.Unlock()
	}
	w.restarts++
	return w.open()
}

func (w *World) Close() {
	if w.roConn != nil {
		w.roConn.Close()
		w.roConn = nil
	}
	if w.Client != nil {
		w.Client.Close()
	}
	for _, suf := range []string{".sqlite3", ".sqlite3-wal", ".sqlite3-shm"} {
		os.Remove(w.file + suf)
	}
}

// PanicError is what Call returns when the handler panicked through the production chain.
type PanicError struct{ Val any }

func (p *PanicError) Error() string { return fmt.Sprintf("PANIC: %v", p.Val) }

// Call invokes a unary RPC through the production interceptor chain with the request
// marshalled and unmarshalled as the codec would.
func (w *World) Call(ctx context.Context, method string, req proto.Message) (resp proto.Message, err error) {
	defer func() {
		if r := recover(); r != nil {
			resp, err = nil, &PanicError{r}
		}
	}()
	for _, sd := range []*grpc.ServiceDesc{&pubsubpb.Publisher_ServiceDesc, &pubsubpb.Subscriber_ServiceDesc} {
		for _, m := range sd.Methods {
			if m.MethodName == method {
				b, merr := proto.Marshal(req)
				if merr != nil {
					return nil, merr
				}
				r, herr := m.Handler(w.impls[sd.ServiceName], ctx, func(v any) error { return proto.Unmarshal(b, v.(proto.Message)) }, w.unaryInt)
				if herr != nil {
					return nil, herr
				}
				// response goes through the codec too
				rb, merr := proto.Marshal(r.(proto.Message))
				if merr != nil {
					return nil, merr
				}
				out := r.(proto.Message).ProtoReflect().New().Interface()
				if merr := proto.Unmarshal(rb, out); merr != nil {
					return nil, merr
				}
				return out, nil
			}
		}
	}
	panic("HARNESS: no such method " + method)
}

func code(err error) codes.Code {
	if err == nil {
		return codes.OK
	}
	if _, ok := err.(*PanicError); ok {
		return codes.Code(999)
	}
	if st, ok := status.FromError(err); ok {
		return st.Code()
	}
	return status.FromContextError(err).Code()
}

// ---- fake server stream for StreamingPull ------------------------------------------------

type fakeStream struct {
	ctx  context.Context
	in   chan *pubsubpb.StreamingPullRequest
	sent func(*pubsubpb.StreamingPullResponse)
	tag  string
}

func (f *fakeStream) SetHeader(metadata.MD) error  { return nil }
func (f *fakeStream) SendHeader(metadata.MD) error { return nil }
func (f *fakeStream) SetTrailer(metadata.MD)       {}
func (f *fakeStream) Context() context.Context     { return f.ctx }
func (f *fakeStream) SendMsg(m any) error {
	S.Yield(f.ctx, "send")
	if err := f.ctx.Err(); err != nil {
		return err
	}
	b, _ := proto.Marshal(m.(proto.Message))
	out := &pubsubpb.StreamingPullResponse{}
	_ = proto.Unmarshal(b, out)
	f.sent(out)
	// the client has the frame now and may react (ack on the stream) before the server's
	// sender goroutine gets to run again
	S.Yield(f.ctx, "sent")
	return nil
}
func (f *fakeStream) RecvMsg(m any) error {
	select {
	case r, ok := <-f.in:
		if !ok {
			return io.EOF
		}
		b, _ := proto.Marshal(r)
		return proto.Unmarshal(b, m.(proto.Message))
	case <-f.ctx.Done():
		return f.ctx.Err()
	}
}

// StreamingPull runs the real handler under the production stream interceptors; blocks until
// the stream ends.
func (w *World) StreamingPull(fs *fakeStream) (err error) {
	defer func() {
		if r := recover(); r != nil {
			err = &PanicError{r}
		}
	}()
	sd := &pubsubpb.Subscriber_ServiceDesc
	var h grpc.StreamHandler
	for _, st := range sd.Streams {
		if st.StreamName == "StreamingPull" {
			h = st.Handler
		}
	}
	return w.streamInt(w.impls[sd.ServiceName], fs, &grpc.StreamServerInfo{FullMethod: "/google.pubsub.v1.Subscriber/StreamingPull", IsClientStream: true, IsServerStream: true}, h)
}

// ---- raw dump of the five tables (harness-owned connection, not the wrapped driver) -------

func (w *World) Dump(ignoreSubExpires bool) (string, error) {
	conn, err := sql.Open("sqlite3", "file:"+w.file+".sqlite3?mode=ro&_busy_timeout=10000")
	if err != nil {
		return "", err
	}
	defer conn.Close()
	var sb strings.Builder
	for _, tbl := range []string{"topics", "subscriptions", "messages", "deliveries", "snapshots"} {
		rows, err := conn.Query("SELECT * FROM " + tbl)
		if err != nil {
			return "", err
		}
		cols, _ := rows.Columns()
		var lines []string
		for rows.Next() {
			vals := make([]any, len(cols))
			ptrs := make([]any, len(cols))
			for i := range vals {
				ptrs[i] = &vals[i]
			}
			if err := rows.Scan(ptrs...); err != nil {
				rows.Close()
				return "", err
			}
			var parts []string
			for i, c := range cols {
				if ignoreSubExpires && tbl == "subscriptions" && c == "expires_at" {
					continue
				}
				v := vals[i]
				if b, ok := v.([]byte); ok {
					v = string(b)
				}
				if t, ok := v.(time.Time); ok {
					v = t.UTC().Format(time.RFC3339Nano)
				}
				parts = append(parts, fmt.Sprintf("%s=%v", c, v))
			}
			lines = append(lines, strings.Join(parts, " "))
		}
		rows.Close()
		sort.Strings(lines)
		sb.WriteString("## " + tbl + "\n")
		for _, l := range lines {
			sb.WriteString(l + "\n")
		}
	}
	return sb.String(), nil
}

// queryInTx: does this ent query run on a transaction's driver? (conservative: unknown = yes)
func queryInTx(q ent.Query) bool {
	v := reflect.ValueOf(q)
	if v.Kind() == reflect.Ptr {
		v = v.Elem()
	}
	if v.Kind() != reflect.Struct {
		return true
	}
	c := v.FieldByName("config")
	if !c.IsValid() {
		return true
	}
	d := c.FieldByName("driver")
	if !d.IsValid() || d.Kind() != reflect.Interface || d.IsNil() {
		return true
	}
	return strings.Contains(d.Elem().Type().String(), "txDriver")
}

// oneMessageID: a successful Publish of one message names exactly one message id (C01).
func oneMessageID(resp proto.Message) (string, *Violation) {
	pr, _ := resp.(*pubsubpb.PublishResponse)
	if pr == nil || len(pr.MessageIds) != 1 || pr.MessageIds[0] == "" {
		n := 0
		if pr != nil {
			n = len(pr.MessageIds)
		}
		return "", viol("C01", "publish_ids", "Publish of 1 messages returned %d ids", n)
	}
	return pr.MessageIds[0], nil
}
