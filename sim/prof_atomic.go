package sim

// atomic (C09): for a seeded pre-state and every operation of the catalogue, enumerate every
// SQL driver event index k of the operation (begin, statement, commit) and every applicable
// fault kind at k; the failed operation must report an error, leave the five tables exactly
// as they were, notify no waiting consumer, and a retry must have the effect of a clean run.

import (
	"context"
	"database/sql"
	"fmt"
	"math/rand"
	"os"
	"regexp"
	"sort"
	"strings"
	"testing"
	"time"

	"github.com/google/uuid"
	"google.golang.org/protobuf/proto"
	"google.golang.org/protobuf/types/known/durationpb"
	"google.golang.org/protobuf/types/known/fieldmaskpb"
	"google.golang.org/protobuf/types/known/timestamppb"

	"go.6river.tech/mmmbbb/actions"
	"go.6river.tech/mmmbbb/grpc/pubsubpb"
	"go.6river.tech/mmmbbb/services"
)

type atomOp struct {
	name     string
	pullType bool // may refresh subscriptions.expires_at even when it fails
	run      func(w *World, ctx context.Context) error
}

func callOp(method string, req proto.Message) func(w *World, ctx context.Context) error {
	return func(w *World, ctx context.Context) error {
		_, err := w.Call(ctx, method, req)
		return err
	}
}

var tsRe = regexp.MustCompile(`\d{4}-\d{2}-\d{2}T\d{2}:\d{2}:\d{2}(\.\d+)?Z`)

// normDump rewrites the timestamps the operation produced (those not present in the
// pre-state dump) as offsets from the operation's start.
func normDump(d string, ref time.Time, pre map[string]bool) string {
	return tsRe.ReplaceAllStringFunc(d, func(x string) string {
		if pre[x] {
			return x
		}
		t, err := time.Parse(time.RFC3339Nano, x)
		if err != nil {
			return x
		}
		return fmt.Sprintf("%+dns", t.Sub(ref).Nanoseconds())
	})
}

// looseDump: like normDump but every timestamp that was not in the pre-state becomes "T"
// (presence and place of new timestamps matter, their value does not).
func looseDump(d string, pre map[string]bool) string {
	d = tsRe.ReplaceAllStringFunc(d, func(x string) string {
		if pre[x] {
			return x
		}
		return "T"
	})
	// ids created by the operation are drawn from a different stream in the faulted attempts
	d = uuidRe.ReplaceAllStringFunc(d, func(x string) string {
		if pre[x] {
			return x
		}
		return "U"
	})
	lines := strings.Split(d, "\n")
	// (row order inside a table is by rendered text: re-sort after the replacement)
	var out []string
	var block []string
	flush := func() {
		sort.Strings(block)
		out = append(out, block...)
		block = nil
	}
	for _, l := range lines {
		if strings.HasPrefix(l, "## ") {
			flush()
			out = append(out, l)
			continue
		}
		block = append(block, l)
	}
	flush()
	return strings.Join(out, "\n")
}

var uuidRe = regexp.MustCompile(`[0-9a-f]{8}-[0-9a-f]{4}-[0-9a-f]{4}-[0-9a-f]{4}-[0-9a-f]{12}`)

func tsSet(d string) map[string]bool {
	m := map[string]bool{}
	for _, x := range tsRe.FindAllString(d, -1) {
		m[x] = true
	}
	for _, x := range uuidRe.FindAllString(d, -1) {
		m[x] = true
	}
	return m
}

func liveSubIDs(w *World) ([]uuid.UUID, error) {
	conn, err := sql.Open("sqlite3", "file:"+w.file+".sqlite3?mode=ro&_busy_timeout=10000")
	if err != nil {
		return nil, err
	}
	defer conn.Close()
	rows, err := conn.Query("SELECT id FROM subscriptions WHERE deleted_at IS NULL")
	if err != nil {
		return nil, err
	}
	defer rows.Close()
	var out []uuid.UUID
	for rows.Next() {
		var s string
		if err := rows.Scan(&s); err != nil {
			return nil, err
		}
		id, err := uuid.Parse(s)
		if err != nil {
			return nil, err
		}
		out = append(out, id)
	}
	return out, nil
}

// cloneWorld copies the database file of w (after a checkpoint) into a second world.
func cloneWorld(w *World) (*World, error) {
	conn, err := sql.Open("sqlite3", "file:"+w.file+".sqlite3?_busy_timeout=10000&_journal_mode=wal")
	if err != nil {
		return nil, err
	}
	if _, err := conn.Exec("PRAGMA wal_checkpoint(TRUNCATE)"); err != nil {
		conn.Close()
		return nil, err
	}
	conn.Close()
	runCounter++
	w2 := &World{dir: w.dir}
	w2.file = fmt.Sprintf("%s/clone%d", w.dir, runCounter)
	if err := copyFile(w.file+".sqlite3", w2.file+".sqlite3"); err != nil {
		return nil, err
	}
	w2.dsn = strings.Replace(w.dsn, w.file, w2.file, 1)
	if err := w2.open(); err != nil {
		return nil, err
	}
	return w2, nil
}

func (r *Run) atomCatalogue() []atomOp {
	t := r.T
	var ops []atomOp
	liveTopics := []*MTopic{}
	for i := 0; i < 4; i++ {
		if mt := r.M.LiveTopic(topicName(i)); mt != nil {
			liveTopics = append(liveTopics, mt)
		}
	}
	var liveSubs []*MSub
	for _, s := range r.M.AllSubs {
		if s.Live {
			liveSubs = append(liveSubs, s)
		}
	}
	pickSub := func() *MSub {
		if len(liveSubs) == 0 {
			return nil
		}
		return liveSubs[t.Intn(len(liveSubs))]
	}
	var outIDs []string // ack ids of outstanding deliveries
	var ackedIDs []string
	for id, e := range r.M.AckIDs {
		if e.Sub.Live && e.State == stOut {
			outIDs = append(outIDs, id)
		} else if e.Sub.Live {
			ackedIDs = append(ackedIDs, id)
		}
	}
	sort.Strings(outIDs)
	sort.Strings(ackedIDs)
	take := func(l []string, n int) []string {
		if len(l) <= n {
			return l
		}
		i := t.Intn(len(l) - n + 1)
		return l[i : i+n]
	}
	if len(liveTopics) > 0 {
		tp := liveTopics[t.Intn(len(liveTopics))]
		ops = append(ops, atomOp{"publish-single", false, callOp("Publish", &pubsubpb.PublishRequest{Topic: tp.Name, Messages: []*pubsubpb.PubsubMessage{{Data: []byte(`{"a":1}`), Attributes: map[string]string{"kind": "a", "x": "1"}, OrderingKey: "K1"}}})})
		ops = append(ops, atomOp{"publish-batch", false, callOp("Publish", &pubsubpb.PublishRequest{Topic: tp.Name, Messages: []*pubsubpb.PubsubMessage{
			{Data: []byte(`{"b":1}`), Attributes: map[string]string{"kind": "a"}, OrderingKey: "K1"},
			{Data: []byte(`{"b":2}`), OrderingKey: "K1"},
			{Data: []byte(`{"b":3}`), Attributes: map[string]string{"kind": "b", "x": "2"}}}})})
		ops = append(ops, atomOp{"create-subscription", false, callOp("CreateSubscription", &pubsubpb.Subscription{Name: "projects/p/subscriptions/atom-new", Topic: tp.Name, EnableMessageOrdering: true,
			DeadLetterPolicy: &pubsubpb.DeadLetterPolicy{DeadLetterTopic: tp.Name, MaxDeliveryAttempts: 3}, RetryPolicy: &pubsubpb.RetryPolicy{MinimumBackoff: durationpb.New(time.Second)}})})
	}
	ops = append(ops, atomOp{"create-topic", false, callOp("CreateTopic", &pubsubpb.Topic{Name: "projects/p/topics/atom-new", Labels: map[string]string{"a": "b"}})})
	if s := pickSub(); s != nil {
		ops = append(ops, atomOp{"update-subscription", false, callOp("UpdateSubscription", &pubsubpb.UpdateSubscriptionRequest{
			Subscription: &pubsubpb.Subscription{Name: s.Name, MessageRetentionDuration: durationpb.New(2 * time.Hour), Labels: map[string]string{"u": "1"}},
			UpdateMask:   &fieldmaskpb.FieldMask{Paths: []string{"message_retention_duration", "labels"}}})})
		ops = append(ops, atomOp{"modify-push-config", false, callOp("ModifyPushConfig", &pubsubpb.ModifyPushConfigRequest{Subscription: s.Name, PushConfig: &pubsubpb.PushConfig{}})})
		ops = append(ops, atomOp{"create-snapshot", false, callOp("CreateSnapshot", &pubsubpb.CreateSnapshotRequest{Name: "projects/p/snapshots/atom-snap", Subscription: s.Name})})
		ops = append(ops, atomOp{"seek-snapshot", false, callOp("Seek", &pubsubpb.SeekRequest{Subscription: s.Name, Target: &pubsubpb.SeekRequest_Snapshot{Snapshot: "projects/p/snapshots/atom-snap"}})})
	}
	if len(outIDs) > 0 {
		ids := take(outIDs, 3)
		sub := r.M.AckIDs[ids[0]].Sub.Name
		ops = append(ops, atomOp{"modack-positive", false, callOp("ModifyAckDeadline", &pubsubpb.ModifyAckDeadlineRequest{Subscription: sub, AckIds: ids, AckDeadlineSeconds: 600})})
		ops = append(ops, atomOp{"modack-zero", false, callOp("ModifyAckDeadline", &pubsubpb.ModifyAckDeadlineRequest{Subscription: sub, AckIds: ids, AckDeadlineSeconds: 0})})
		ops = append(ops, atomOp{"acknowledge", false, callOp("Acknowledge", &pubsubpb.AcknowledgeRequest{Subscription: sub, AckIds: append(append([]string{}, ids...), take(ackedIDs, 1)...)})})
	}
	if len(outIDs) >= 2 && actions.VerifStreamAckNack != nil {
		ids := take(outIDs, 4)
		e0 := r.M.AckIDs[ids[0]]
		var ack, nack []uuid.UUID
		for i, id := range ids {
			u, _ := uuid.Parse(id)
			if i%2 == 0 {
				ack = append(ack, u)
			} else {
				nack = append(nack, u)
			}
		}
		subName := e0.Sub.Name
		ops = append(ops, atomOp{"stream-ack-nack", false, func(w *World, ctx context.Context) error {
			return actions.VerifStreamAckNack(ctx, w.Client, uuid.Nil, subName, ack, nack)
		}})
	}
	for _, s := range liveSubs {
		s := s
		ops = append(ops, atomOp{"pull:" + s.Name[len("projects/p/subscriptions/"):], true, callOp("Pull", &pubsubpb.PullRequest{Subscription: s.Name, MaxMessages: 100, ReturnImmediately: true})})
		if len(ops) > 40 {
			break
		}
	}
	if s := pickSub(); s != nil {
		ops = append(ops, atomOp{"seek-time-past", false, callOp("Seek", &pubsubpb.SeekRequest{Subscription: s.Name, Target: &pubsubpb.SeekRequest_Time{Time: timestamppb.New(epoch.Add(-time.Hour))}})})
		ops = append(ops, atomOp{"seek-time-future", false, callOp("Seek", &pubsubpb.SeekRequest{Subscription: s.Name, Target: &pubsubpb.SeekRequest_Time{Time: timestamppb.New(time.Now().Add(24 * time.Hour))}})})
	}
	ops = append(ops, atomOp{"dead-letter-sweep", false, func(w *World, ctx context.Context) error {
		a := actions.NewDeadLetterDeliveries(actions.DeadLetterDeliveriesParams{MaxDeliveries: 100})
		return w.Client.DoCtxTx(ctx, nil, a.Execute)
	}})
	for _, jn := range jobNames {
		jn := jn
		ops = append(ops, atomOp{"job:" + jn, false, func(w *World, ctx context.Context) error {
			var svc services.Service
			for _, s := range services.VerifDefaultServices() {
				if s.Name() == jn {
					svc = s
				}
			}
			_, err, _ := services.VerifPruneRunOnce(ctx, svc, w.Client, time.Nanosecond, 100)
			return err
		}})
	}
	ops = append(ops, atomOp{"delete-snapshot", false, callOp("DeleteSnapshot", &pubsubpb.DeleteSnapshotRequest{Snapshot: "projects/p/snapshots/atom-snap"})})
	if s := pickSub(); s != nil {
		ops = append(ops, atomOp{"delete-subscription", false, callOp("DeleteSubscription", &pubsubpb.DeleteSubscriptionRequest{Subscription: s.Name})})
	}
	if len(liveTopics) > 0 {
		ops = append(ops, atomOp{"delete-topic", false, callOp("DeleteTopic", &pubsubpb.DeleteTopicRequest{Topic: liveTopics[0].Name})})
	}
	return ops
}

type atomStats struct {
	cases, cells int
	sample       []string
	distinct     map[string]bool
}

func runAtomic(t *testing.T, tape *Tape, w *World, variant string, steps int, out *runOutcome) {
	r := &Run{T: tape, W: w, M: NewModel(), Sim: S, Variant: "atomprefix", Stats: map[string]int{}, Hashes: map[uint64]bool{}}
	r.M.KnownSigs = knownSigs
	out.stats = r.Stats
	// ---- prefix: a fault-free history that leaves real work behind (no drain)
	r.configure()
	r.faultsOn, r.jobsOn = false, false
	r.opWeights[opFault], r.opWeights[opRestart], r.opWeights[opJob], r.opWeights[opExpirySweep], r.opWeights[opSetDelay] = 0, 0, 0, 0, 0
	r.opWeights[opAdvance] = 2
	if v := r.setup(); v != nil {
		out.v = v
		out.trace = r.Trace
		return
	}
	n := 15 + tape.Intn(25)
	for i := 0; i < n; i++ {
		if v := r.step(); v != nil {
			out.v = v
			out.trace = r.Trace
			return
		}
	}
	// a fixture that guarantees dead-letter moves with a live target: a subscription whose
	// attempts are used up, dead-lettering into a topic that has a subscriber
	for _, f := range []func() *Violation{
		func() *Violation { return r.xTopic(8) },
		func() *Violation { return r.xTopic(9) },
		func() *Violation { return r.xSub(9, 9, nil) },
		func() *Violation {
			return r.xSub(8, 8, func(c *SubCfg, q *pubsubpb.Subscription) {
				c.DLTopic, c.MaxAttempts = r.M.LiveTopic(topicName(9)), 1
				q.DeadLetterPolicy = &pubsubpb.DeadLetterPolicy{DeadLetterTopic: topicName(9), MaxDeliveryAttempts: 1}
			})
		},
		func() *Violation { return r.xPublish(8, nil, "") },
		func() *Violation { return r.xPublish(8, nil, "") },
		func() *Violation { return r.pullSub(r.M.LiveSub(subName(8)), false) },
	} {
		if v := f(); v != nil {
			out.v = v
			out.trace = r.Trace
			return
		}
	}
	// move the clock so that leases lapse and dead-letter candidates exist
	time.Sleep(time.Duration(1+tape.Intn(3)) * 11 * time.Minute)
	S.Settle()
	tape.Frame()
	ops := r.atomCatalogue()
	st := &atomStats{distinct: map[string]bool{}}
	uuidSeed := int64(1000 + tape.Intn(1000000))
	for _, op := range ops {
		if v := r.atomOne(op, st, &uuidSeed); v != nil {
			out.v = v
			break
		}
	}
	out.trace = r.Trace
	out.probes = r.M.Probes
	r.Stats["atomic_cases"] += st.cases
	r.Stats["atomic_cells"] += st.cells
	out.hashes = map[uint64]bool{}
	for k := range st.distinct {
		h := uint64(14695981039346656037)
		for i := 0; i < len(k); i++ {
			h ^= uint64(k[i])
			h *= 1099511628211
		}
		out.hashes[h] = true
	}
	out.sample = st.sample
}

func (r *Run) atomOne(op atomOp, st *atomStats, uuidSeed *int64) *Violation {
	w := r.W
	*uuidSeed++
	seed := *uuidSeed
	// the faulted attempts take virtual time (ticks); no stored deadline may fall between the
	// clean run and the final retry, or the two would legitimately differ
	r.nudge(5 * time.Second)
	// ---- 1. clean run on a clone, counting events
	preFull, err := w.Dump(false)
	if err != nil {
		panic("HARNESS: dump: " + err.Error())
	}
	preTS := tsSet(preFull)
	w2, err := cloneWorld(w)
	if err != nil {
		panic("HARNESS: clone: " + err.Error())
	}
	uuid.SetRand(rand.New(rand.NewSource(seed)))
	S.RecordEvents, S.EvtLog = true, nil
	S.ResetEvents()
	start2 := time.Now()
	cleanPreT, _ := w2.Dump(op.pullType)
	cleanErr := op.run(w2, context.Background())
	evts := append([]byte(nil), S.EvtLog...)
	S.RecordEvents = false
	cleanPostT, _ := w2.Dump(op.pullType)
	cleanChanges := cleanPreT != cleanPostT // does the operation, run cleanly, change the tables at all?
	cleanDump, _ := w2.Dump(false)
	cleanLoose := looseDump(cleanDump, preTS)
	cleanDump = normDump(cleanDump, start2, preTS)
	w2.Close()
	if _, ok := isPanic(cleanErr); ok {
		return viol("C16", "panic", "%s panicked: %v", op.name, cleanErr)
	}
	n := len(evts)
	r.ev("atomic %s: %d driver events (%s), clean result %v", op.name, n, string(evts), code(cleanErr))
	st.cells++
	if cleanErr != nil {
		// the op is not applicable in this pre-state (e.g. NotFound); nothing to enumerate
		return nil
	}
	pre, err := w.Dump(op.pullType)
	if err != nil {
		panic("HARNESS: dump: " + err.Error())
	}
	subIDs, err := liveSubIDs(w)
	if err != nil {
		panic("HARNESS: " + err.Error())
	}
	// ---- 2. every k, every applicable kind
	for k := 1; k <= n; k++ {
		kinds := []FaultKind{FaultStmtErr, FaultCancel, FaultConnLoss}
		if evts[k-1] == 's' {
			kinds = append(kinds, FaultCancelAfter)
		}
		if evts[k-1] == 'c' {
			kinds = []FaultKind{FaultCommitErr, FaultCancel, FaultConnLoss}
		}
		for _, kind := range kinds {
			st.cases++
			var waiters []actions.PublishNotifier
			for _, id := range subIDs {
				waiters = append(waiters, actions.PublishAwaiter(id))
			}
			ctx, cancel := context.WithCancel(context.Background())
			uuid.SetRand(rand.New(rand.NewSource(seed + 7777)))
			S.Arm(kind, k, cancel)
			err := op.run(w, ctx)
			_, fired := S.Disarm()
			cancel()
			S.Settle()
			crashed := S.connLost
			woken := -1
			for i, c := range waiters {
				select {
				case <-c:
					woken = i
				default:
				}
				actions.CancelPublishAwaiter(subIDs[i], c)
			}
			if crashed {
				if rerr := w.Restart(); rerr != nil {
					panic("HARNESS: restart: " + rerr.Error())
				}
				r.stat("crash_restart")
			}
			if p, ok := isPanic(err); ok {
				return viol("C16", "panic", "%s with %v at event %d panicked: %v", op.name, kind, k, p.Val)
			}
			key := fmt.Sprintf("%s|%c|%v|%v", strings.SplitN(op.name, ":", 2)[0], evts[k-1], kind, err == nil)
			st.distinct[key] = true
			if len(st.sample) < 12 {
				st.sample = append(st.sample, fmt.Sprintf("%s: fault %v at event %d/%d (%c) fired=%v -> %v", op.name, kind, k, n, evts[k-1], fired, code(err)))
			}
			if !fired {
				// fewer events than the clean run can only happen if the op took another
				// path; that is fine as long as the state checks below hold
				r.stat("atomic_fault_not_reached")
			}
			if err == nil {
				// the fault landed after the decisive commit (or was absorbed): the op is
				// allowed to have fully succeeded; state moved on, re-baseline
				r.stat("atomic_succeeded_despite_fault")
				post, _ := w.Dump(op.pullType)
				if post != pre {
					// a reported success must be the whole effect, not part of it
					full, _ := w.Dump(false)
					if got := looseDump(full, preTS); got != cleanLoose && !crashed {
						return viol("C09", "success_partial", "%s reported success (fault %v at driver event %d of %d, kind %c) but the tables differ from those after the same operation without a fault:\n%s", op.name, kind, k, n, evts[k-1], diffLines(cleanLoose, got))
					}
					// a success changes state: everything after this is a different cell
					return r.atomFinish(op, st, seed, cleanDump, preTS, true)
				}
				if cleanChanges {
					return viol("C09", "success_without_effect", "%s reported success (fault %v at driver event %d of %d, kind %c) but left the tables unchanged, while the same operation without a fault changes them", op.name, kind, k, n, evts[k-1])
				}
				continue
			}
			post, derr := w.Dump(op.pullType)
			if derr != nil {
				panic("HARNESS: dump: " + derr.Error())
			}
			if post != pre {
				return viol("C09", "partial_effect", "%s failed with %v (fault %v at driver event %d of %d, kind %c) but changed the tables:\n%s", op.name, err, kind, k, n, evts[k-1], diffLines(pre, post))
			}
			if woken >= 0 && !crashed {
				return viol("C09", "notified_without_commit", "%s failed with %v (fault %v at driver event %d of %d) but a waiting consumer of subscription %s was notified", op.name, err, kind, k, n, subIDs[woken])
			}
		}
	}
	return r.atomFinish(op, st, seed, cleanDump, preTS, false)
}

// atomFinish retries the operation without a fault and compares with the clean run.
func (r *Run) atomFinish(op atomOp, st *atomStats, seed int64, cleanDump string, preTS map[string]bool, already bool) *Violation {
	w := r.W
	if !already {
		uuid.SetRand(rand.New(rand.NewSource(seed)))
		start := time.Now()
		err := op.run(w, context.Background())
		if err != nil {
			return viol("C09", "retry_failed", "%s: retry after injected failures returned %v", op.name, err)
		}
		got, _ := w.Dump(false)
		got = normDump(got, start, preTS)
		if got != cleanDump {
			return viol("C09", "retry_differs", "%s: state after failures+retry differs from a clean run:\n%s", op.name, diffLines(cleanDump, got))
		}
		r.stat("atomic_retry_equal_clean")
	}
	return nil
}

func diffLines(a, b string) string {
	am := map[string]int{}
	for _, l := range strings.Split(a, "\n") {
		am[l]++
	}
	var sb strings.Builder
	for _, l := range strings.Split(b, "\n") {
		if am[l] > 0 {
			am[l]--
		} else {
			sb.WriteString("+ " + l + "\n")
		}
	}
	for l, n := range am {
		for i := 0; i < n; i++ {
			sb.WriteString("- " + l + "\n")
		}
	}
	s := sb.String()
	if len(s) > 3000 {
		s = s[:3000] + "..."
	}
	return s
}

func init() {
	engines["atomic"] = runAtomic
	_ = os.Getenv
}
