package sim

import (
	"bytes"
	"encoding/json"
	"net/http"
	"net/http/httptest"
	"sync"
	"time"

	"github.com/gin-gonic/gin"

	"go.6river.tech/mmmbbb/controllers"
	"go.6river.tech/mmmbbb/db"
	"go.6river.tech/mmmbbb/middleware"
	"google.golang.org/protobuf/types/known/durationpb"
	"google.golang.org/protobuf/types/known/timestamppb"
)

var dbNameOnce sync.Once

// setDelayHTTP drives the real /delays gin controller in-process (httptest recorder).
func (r *Run) setDelayHTTP(sub string, d time.Duration) (int, error) {
	dbNameOnce.Do(func() { db.SetDefaultDbName("simdb") })
	gin.SetMode(gin.ReleaseMode)
	eng := gin.New()
	eng.Use(middleware.WithEntClient(r.W.Client, middleware.Key()))
	cc := &controllers.DelayInjectorController{}
	if err := cc.Register(eng); err != nil {
		return 0, err
	}
	body, _ := json.Marshal(map[string]string{"delay": d.String()})
	req := httptest.NewRequest(http.MethodPut, "/delays/"+sub, bytes.NewReader(body))
	req.Header.Set("content-type", "application/json")
	rec := httptest.NewRecorder()
	eng.ServeHTTP(rec, req)
	return rec.Code, nil
}

func timestamppbNew(t time.Time) *timestamppb.Timestamp { return timestamppb.New(t) }

func durationpbNew(d time.Duration) *durationpb.Duration { return durationpb.New(d) }
