package sim

// push (C19): a push subscription served by the real httpPusher service and HttpPushStreamer;
// http.DefaultTransport is replaced by a simulated endpoint whose per-request outcome (status
// 100-599, transport error, hang, 0..5 s latency) and completion order are tape choices.
// Oracle: envelope fidelity and delivery_attempt on every request; a success response means
// the message is never pushed (or pulled) again; any other outcome means it is pushed again,
// not before the backoff lower bound and, once that has passed, as soon as there is window;
// the window stays within [1,1000].

import (
	"context"
	"encoding/base64"
	"encoding/json"
	"errors"
	"fmt"
	"io"
	"net/http"
	"sort"
	"strings"
	"testing"
	"time"

	"google.golang.org/grpc/codes"

	"go.6river.tech/mmmbbb/actions"
	"go.6river.tech/mmmbbb/grpc/pubsubpb"
	"go.6river.tech/mmmbbb/services"
)

// pushSelectMode is set at link time by buildsim.py: "rewritten" if the pusher's Receive
// select was given a tape-ordered pre-poll, else "constraint".
var pushSelectMode = "constraint"

type pushReq struct {
	id       int
	ack      string // synthetic ack id: push|sub|msg
	msgID    string
	sub      string
	attempt  int
	arrived  time.Time
	status   int // 0 = transport error, -1 = hang
	delay    time.Duration
	wakeAt   time.Time
	done     bool
	class    int // 0 fast ack, 1 slow ack, 2 nack
	released bool
	// afterFault: arrived between the injected storage fault and the next quiescence
	afterFault bool
}

type pushSim struct {
	r        *Run
	sub      *MSub
	reqs     []*pushReq
	inflight int
	maxIn    int
	fail     func(*Violation)
	pending  *[]seqOp
	script   func(p *pushReq)
	seen     map[string]int // msgID -> pushes seen
	maxWin   int
	stopped  bool // endpoint removed from the subscription: no new pushes expected
	stopAt   time.Time
	stalled  bool
	// nackRace: ack ids whose failed, slow request may be processed (and, with the attempts
	// used up by an overlapping second push, dead-letter the delivery) only after a later fetch
	nackRace map[string]bool
	faultAt  time.Time // when the injected storage fault fired (zero: not yet / never)
	// faultOpen: from the fault to the next quiescence requests may still come from the pusher
	// that the fault killed (its outcome queues are gone)
	faultOpen bool
	// lenient (pushtiny): requests are counted and their envelopes checked, the model is not
	// consulted (leases of a few nanoseconds are shorter than any request)
	lenient bool
	sink    []seqOp
}

type envelope struct {
	Message struct {
		Attributes  map[string]string `json:"attributes"`
		Data        string            `json:"data"`
		MessageID   string            `json:"messageId"`
		OrderingKey string            `json:"orderingKey"`
		PublishTime string            `json:"publishTime"`
	} `json:"message"`
	Subscription    string `json:"subscription"`
	DeliveryAttempt int    `json:"deliveryAttempt"`
}

func (ps *pushSim) RoundTrip(req *http.Request) (*http.Response, error) {
	r := ps.r
	// several Send goroutines enter here truly in parallel: touch nothing shared before the
	// first yield (only locals), then take the baton
	body, _ := io.ReadAll(req.Body)
	req.Body.Close()
	var env envelope
	jerr := json.NewDecoder(strings.NewReader(string(body))).Decode(&env)
	if ps.lenient && jerr == nil && env.Subscription != "" && env.Subscription != ps.sub.Name {
		// a request of the run's other push subscription (the one with the odd endpoint): its
		// endpoint does not exist
		return nil, errors.New("simulated transport error: no such host")
	}
	S.YieldTag(req.Context(), "http-arrive", fmt.Sprintf("%s-%03d", env.Message.MessageID, env.DeliveryAttempt))
	now := time.Now()
	p := &pushReq{id: len(ps.reqs), arrived: now, afterFault: ps.faultOpen}
	ps.reqs = append(ps.reqs, p)
	ps.inflight++
	if ps.inflight > ps.maxIn {
		ps.maxIn = ps.inflight
	}
	if jerr != nil {
		ps.fail(viol("C19", "envelope_json", "push request body is not JSON: %v: %.200q", jerr, body))
	}
	if req.Method != http.MethodPost || !strings.HasPrefix(req.Header.Get("content-type"), "application/json") {
		ps.fail(viol("C19", "envelope_http", "push request is %s with content-type %q", req.Method, req.Header.Get("content-type")))
	}
	data, derr := base64.StdEncoding.DecodeString(env.Message.Data)
	if derr != nil {
		ps.fail(viol("C19", "envelope_base64", "message.data is not base64: %v", derr))
	}
	pt, terr := time.Parse(time.RFC3339Nano, env.Message.PublishTime)
	if terr != nil {
		ps.fail(viol("C19", "envelope_publish_time", "publishTime %q is not RFC 3339: %v", env.Message.PublishTime, terr))
	}
	if env.Subscription != ps.sub.Name {
		ps.fail(viol("C19", "envelope_subscription", "envelope names subscription %q, expected %q", env.Subscription, ps.sub.Name))
	}
	p.msgID, p.sub, p.attempt = env.Message.MessageID, env.Subscription, env.DeliveryAttempt
	p.ack = "push|" + ps.sub.Name + "|" + p.msgID
	ps.seen[p.msgID]++
	if ps.stopped && now.After(ps.stopAt.Add(time.Second)) {
		ps.fail(viol("C19", "push_after_endpoint_removed", "message %s pushed %v after the push endpoint was removed", p.msgID, now.Sub(ps.stopAt)))
	}
	rm := RecvMsg{AckID: p.ack, MsgID: p.msgID, Data: data, Attrs: env.Message.Attributes, Key: env.Message.OrderingKey, Attempt: p.attempt, PubTime: pt}
	seqNo := S.commitSeq
	if ps.lenient {
		ps.pending = &ps.sink
	}
	*ps.pending = append(*ps.pending, seqOp{seqNo, func() *Violation {
		if x := r.M.Msgs[rm.MsgID]; x != nil {
			r.ev("   (POST #%d carried m%d, attempt %d)", p.id, x.Seq, rm.Attempt)
		}
		v := r.M.Pull(ps.sub, 1<<30, []RecvMsg{rm}, now.Add(-time.Millisecond), now)
		if v != nil {
			v.Oracle = "push:" + v.Oracle
			if v.Prop == "C03" || v.Prop == "C04" {
				// on a push subscription the ack is the success response and the retry is the
				// next POST: "never pushed again" / "pushed again after the backoff" are C19
				v.Prop = "C19"
			}
			return v
		}
		if e := r.M.AckIDs[rm.AckID]; e != nil && ps.nackRace[rm.AckID] && ps.sub.Cfg.fullDL() && e.State == stOut && e.Seen >= int(ps.sub.Cfg.MaxAttempts) {
			// the nack of the earlier, slow request is processed after this fetch raised the
			// attempt count: it dead-letters the delivery while this request is in flight
			r.M.deadLetterMaybe(e, now)
			return nil
		}
		if e := r.M.AckIDs[rm.AckID]; e != nil && ps.stalled && ps.sub.Cfg.fullDL() && e.State == stOut && e.Seen >= int(ps.sub.Cfg.MaxAttempts) {
			// stalled-server runs: if the lease lapses while this last allowed attempt is
			// still in flight, the next fetch dead-letters the delivery
			r.M.deadLetterMaybe(e, now)
			e.DLMaybe = false // (still outstanding for the ack / nack that follows)
		}
		return nil
	}})
	ps.script(p)
	mm := -1
	if x := r.M.Msgs[p.msgID]; x != nil {
		mm = x.Seq
	}
	r.ev("POST #%d m%d attempt=%d (in flight %d) -> scripted status=%d delay=%v", p.id, mm, p.attempt, ps.inflight, p.status, p.delay)
	// ---- the endpoint "processes" the request: tape decides when, then latency, then completion order
	S.YieldTag(req.Context(), "http-process", fmt.Sprintf("%04d", p.id))
	if p.status == -1 {
		<-req.Context().Done()
		ps.inflight--
		p.done = true
		return nil, req.Context().Err()
	}
	if p.delay > 0 {
		p.wakeAt = time.Now().Add(p.delay)
		select {
		case <-time.After(p.delay):
		case <-req.Context().Done():
			ps.inflight--
			p.done = true
			return nil, req.Context().Err()
		}
	}
	p.class = 2
	if p.status == 102 || p.status == 200 || p.status == 201 || p.status == 202 || p.status == 204 {
		// documented success codes (property text); which queue the implementation uses
		// depends on the latency it measured
		p.class = 0
		if time.Since(p.arrived) >= time.Second {
			p.class = 1
		}
	}
	S.YieldTag(req.Context(), "http-done", fmt.Sprintf("%d-%04d", p.class, p.id))
	ps.inflight--
	p.done = true
	t1 := time.Now()
	success := p.class != 2
	ack := p.ack
	att := p.attempt
	// The server renews the lease of an in-flight push on a best-effort timer. A request that
	// is in flight for as long as the subscription's minimum backoff (its shortest possible
	// lease) may lose that race: the delivery is then fetched again while this request is
	// still open (a second push, or dead-lettering if it has used up its attempts). Such
	// requests get the same narrow relaxations as a stalled server.
	minLease := ps.sub.Cfg.MinB
	if minLease <= 0 {
		minLease = 10 * time.Second
	}
	if mb := ps.sub.Cfg.MaxB; mb > 0 && mb < minLease {
		minLease = mb // a maximum backoff below the minimum caps every lease
	}
	relaxed := ps.stalled || t1.Sub(p.arrived) >= minLease
	if relaxed && !ps.stalled {
		r.Stats["push_slow_request_relaxed"]++
	}
	*ps.pending = append(*ps.pending, seqOp{S.commitSeq, func() *Violation {
		e := r.M.AckIDs[ack]
		if e == nil {
			return nil
		}
		if relaxed && !ps.stalled && ps.sub.Cfg.fullDL() && e.State == stOut && e.Seen >= int(ps.sub.Cfg.MaxAttempts) {
			r.M.deadLetterMaybe(e, t1)
			e.DLMaybe = false // (still outstanding for the ack / nack that follows)
		}
		if !ps.faultAt.IsZero() && (!p.arrived.After(ps.faultAt) || p.afterFault) {
			// this request was in flight when the storage fault hit the server: the pusher that
			// sent it may be gone, and its outcome with it
			e.Fuzzy = true
			if ps.sub.Cfg.fullDL() && e.State == stOut {
				r.M.deadLetterMaybe(e, t1)
			}
			return nil
		}
		if ps.stopped {
			// the endpoint was removed in this round: the pusher is being cancelled and may
			// drop outcomes it has not committed yet; nothing is known about this delivery
			if e.State == stOut {
				if !success && ps.sub.Cfg.fullDL() && e.Seen >= int(ps.sub.Cfg.MaxAttempts) {
					r.M.deadLetterMaybe(e, t1) // the nack may still have been processed
				}
				e.Fuzzy = true
			}
			return nil
		}
		if success {
			r.M.Ack(nil, []string{ack}, t1, t1)
			// stalled-server runs: until the server has committed the ack (next quiescence) a
			// second push of the same delivery may legitimately have started
			e.Grace = relaxed
			r.M.probe("push_acked")
		} else {
			// nack: rescheduled by the backoff, counted from (at the earliest) now
			if e.State == stOut && ps.sub.Cfg.fullDL() && e.Seen >= int(ps.sub.Cfg.MaxAttempts) {
				// the nack of a delivery that used up its attempts dead-letters it
				r.M.deadLetter(e, t1, t1.Add(time.Second))
				r.M.probe("dl_via_nack")
			} else if e.State == stOut {
				if relaxed {
					ps.nackRace[ack] = true
				}
				if relaxed && ps.sub.Cfg.fullDL() && e.Seen+1 >= int(ps.sub.Cfg.MaxAttempts) {
					// stalled-server runs: an overlapping second push may already have raised
					// the attempt count, in which case this nack dead-letters the delivery
					r.M.deadLetterMaybe(e, t1)
				}
				if !relaxed {
					// (stalled-server runs: a lease-lapse duplicate may already be on its way)
					e.LeaseLo = t1.Add(nominalBackoff(&ps.sub.Cfg, att))
				}
				e.LeaseHi = farFuture // settled at the next quiescence (the nack is processed asynchronously)
				e.Cause = "nack"
				r.M.probe("push_nacked")
			}
		}
		return nil
	}})
	r.ev("POST #%d completes: status=%d after %v", p.id, p.status, t1.Sub(p.arrived))
	if p.status == 0 {
		return nil, errors.New("simulated transport error")
	}
	return &http.Response{StatusCode: p.status, Status: fmt.Sprintf("%d sim", p.status), Proto: "HTTP/1.1", ProtoMajor: 1, ProtoMinor: 1, Header: http.Header{}, Body: io.NopCloser(strings.NewReader("ok")), Request: req}, nil
}

var pushStatuses = []int{200, 201, 202, 204, 102, 203, 205, 206, 226, 299, 100, 101, 301, 304, 400, 404, 408, 429, 500, 502, 503, 599, 0}

func runPush(t *testing.T, tape *Tape, w *World, variant string, steps int, out *runOutcome) {
	r := newSetupRun(tape, w, "push")
	out.stats = r.Stats
	defer func() {
		out.trace, out.probes, out.hashes = r.Trace, r.M.Probes, r.Hashes
		out.sample = sampleOf(r.Trace)
	}()
	if services.VerifHTTPPusher == nil {
		panic("HARNESS: push overlay not available")
	}
	tape.Frame()
	r.nTopics, r.nSubs = 2, 3
	if v := r.xTopic(0); v != nil {
		out.v = v
		return
	}
	if v := r.xTopic(1); v != nil {
		out.v = v
		return
	}
	minB := []time.Duration{time.Second, 3 * time.Second, 10 * time.Second, 45 * time.Second}[tape.Intn(4)]
	maxB := []time.Duration{0, 5 * time.Second, 2 * time.Minute}[tape.Intn(3)]
	ordered := tape.Bool(20)
	dlN := int32(0)
	if tape.Bool(35) {
		dlN = int32(1 + tape.Intn(4))
	}
	endpoint := "http://push.sim.invalid/endpoint"
	if v := r.xSub(0, 0, func(c *SubCfg, q *pubsubpb.Subscription) {
		c.Push, q.PushConfig = endpoint, &pubsubpb.PushConfig{PushEndpoint: endpoint}
		c.MinB, c.MaxB = minB, maxB
		q.RetryPolicy = &pubsubpb.RetryPolicy{MinimumBackoff: durationpbNew(minB)}
		if maxB > 0 {
			q.RetryPolicy.MaximumBackoff = durationpbNew(maxB)
		}
		c.Ordered, q.EnableMessageOrdering = ordered, ordered
		if dlN > 0 {
			c.DLTopic, c.MaxAttempts = r.M.LiveTopic(topicName(1)), dlN
			q.DeadLetterPolicy = &pubsubpb.DeadLetterPolicy{DeadLetterTopic: topicName(1), MaxDeliveryAttempts: dlN}
		}
	}); v != nil {
		out.v = v
		return
	}
	if v := r.xSub(1, 1, nil); v != nil { // pull subscription on the dead-letter topic
		out.v = v
		return
	}
	sub := r.M.LiveSub(subName(0))
	sub.attached = true
	out.header = len(tape.marks)
	tape.Frame()

	var pending []seqOp
	var firstViol *Violation
	fail := func(v *Violation) {
		if firstViol == nil && v != nil {
			firstViol = v
		}
	}
	// per-run endpoint behaviour mix
	okBias := []int{90, 60, 30}[tape.Intn(3)]
	slowBias := []int{0, 15, 40}[tape.Intn(3)]
	hangOK := tape.Bool(20)
	// fault: a stalled server. Response latencies are skipped in one jump, so the periodic
	// lease renewal of in-flight pushes does not get to run and a second push of the same
	// delivery can overlap the first one
	stalled := tape.Bool(15)
	if stalled {
		r.Stats["push_stalled_server_runs"]++
	}
	// fault: one storage error inside the server while pushes are under way (a statement of
	// whatever transaction comes next fails). A pusher hit by it dies and is restarted by its
	// monitor. What was in flight then is unknown afterwards (acks / nacks may be lost, pushes
	// repeated); what is published AFTER the fault must be pushed like before.
	sqlFault := !stalled && tape.Bool(20)
	sqlFaultAt, sqlArmed, sqlDone := 0, false, false
	if sqlFault {
		sqlFaultAt = 20 + tape.Intn(300)
		r.Stats["push_sql_fault_runs"]++
	}
	ps := &pushSim{r: r, sub: sub, fail: fail, pending: &pending, seen: map[string]int{}, stalled: stalled, nackRace: map[string]bool{}}
	// swarm mode "burst": after a warm-up of fast successes (window grows) every request
	// takes the same 1.2 s and succeeds or fails by coin flip, so slow successes and failures
	// of several in-flight pushes complete together and meet in the reader's queues
	burstAfter := -1
	if tape.Bool(30) {
		burstAfter = 4 + tape.Intn(12)
		r.Stats["push_burst_runs"]++
	}
	ps.script = func(p *pushReq) {
		if burstAfter >= 0 {
			if p.id < burstAfter {
				p.status = []int{200, 201, 202, 204}[tape.Intn(4)]
				return
			}
			p.delay = 1200 * time.Millisecond
			if tape.Bool(60) {
				p.status = []int{200, 201, 202, 204, 102}[tape.Intn(5)]
			} else {
				p.status = []int{500, 404, 0, 299}[tape.Intn(4)]
			}
			return
		}
		if tape.Bool(okBias) {
			p.status = []int{200, 201, 202, 204, 102}[tape.Intn(5)]
		} else {
			p.status = pushStatuses[tape.Intn(len(pushStatuses))]
			if hangOK && tape.Bool(10) {
				p.status = -1
			}
		}
		if tape.Bool(slowBias) {
			p.delay = []time.Duration{300 * time.Millisecond, 1200 * time.Millisecond, 5 * time.Second}[tape.Intn(3)]
		}
	}
	if pushSelectMode == "rewritten" {
		actions.VerifSelectOrder = func(fast, slow, nack int) []int {
			n := 0
			for _, x := range []int{fast, slow, nack} {
				if x > 0 {
					n++
				}
			}
			if n < 2 {
				return nil // at most one ready case: the original select is already deterministic
			}
			r.Stats["push_select_two_ready"]++
			order := []int{0, 1, 2}
			for i := 2; i > 0; i-- {
				j := tape.Intn(i + 1)
				order[i], order[j] = order[j], order[i]
			}
			return order
		}
		defer func() { actions.VerifSelectOrder = nil }()
	}
	oldTransport := http.DefaultTransport
	http.DefaultTransport = ps
	defer func() { http.DefaultTransport = oldTransport }()

	r.M.Concurrent = true
	S.on = true
	c := &conc{t: tape}
	svc := services.VerifHTTPPusher()
	if err := svc.Initialize(context.Background(), w.Client); err != nil {
		panic("HARNESS: pusher init: " + err.Error())
	}
	ready := make(chan struct{})
	pusherTask := c.spawn("pusher", func(ctx context.Context) {
		if err := svc.Start(ctx, ready); err != nil && !errors.Is(err, context.Canceled) {
			fail(viol("C19", "pusher_died", "http pusher service ended with %v", err))
		}
	})
	flush := func() *Violation {
		sort.SliceStable(pending, func(a, b int) bool { return pending[a].seq < pending[b].seq })
		for _, op := range pending {
			if v := op.apply(); v != nil {
				return v
			}
		}
		pending = nil
		for _, e := range sub.EDs {
			e.Grace = false
		}
		return nil
	}
	streamer := func() *actions.HttpPushStreamer {
		if services.VerifPusherStreamers == nil {
			return nil
		}
		for _, p := range services.VerifPusherStreamers(svc) {
			return p
		}
		return nil
	}
	// schedule until quiescent: nothing parked (after the select-determinism filter) and no
	// simulated response latency pending
	sched := func(maxSteps int) bool {
		S.Settle()
		for i := 0; i < maxSteps; i++ {
			if firstViol != nil {
				return true
			}
			keys := S.ParkedKeys()
			var allowed []string
			var fast, slow, nack int
			if st := streamer(); st != nil && actions.VerifPushQueueLens != nil {
				fast, slow, nack = actions.VerifPushQueueLens(st)
				if w := st.CurrentFlowControl().MaxMessages; w < 1 || w > 1000 {
					fail(viol("C19", "window_bounds", "push window is %d, outside [1,1000]", w))
				} else if w > ps.maxWin {
					ps.maxWin = w
				}
			}
			blocked := 0
			for _, k := range keys {
				if j := strings.Index(k, "@http-done#"); j >= 0 && pushSelectMode != "rewritten" {
					cls := int(k[j+len("@http-done#")] - '0')
					others := [3]int{slow + nack, fast + nack, fast + slow}[cls]
					if others > 0 {
						blocked++
						continue
					}
					// (neither the select rewrite nor the queue-length hook fits this tree: the
					// outcome path has been restructured, there are no three queues to keep
					// apart, and outcomes of different classes may complete back to back. A
					// violation found this way is still replayed in a fresh process before it
					// is reported.)
					if actions.VerifPushQueueLens == nil {
						r.Stats["http_outcome_path_restructured"]++
					}
				}
				allowed = append(allowed, k)
			}
			if blocked > 0 {
				r.Stats["http_two_queues_constraint_bound"]++
			}
			if len(allowed) == 0 {
				// nothing runnable: pending latencies?
				var next time.Time
				for _, p := range ps.reqs {
					if !p.done && !p.wakeAt.IsZero() && p.wakeAt.After(time.Now()) && (next.IsZero() || p.wakeAt.Before(next)) {
						next = p.wakeAt
					}
				}
				if !next.IsZero() {
					// advance in small slices so that the server's own periodic work (lease
					// renewal of in-flight pushes every ~0.45 s) is scheduled in between;
					// one big jump would starve it and is a different fault (stalled server)
					d := time.Until(next) + time.Microsecond
					if d > 50*time.Millisecond && !stalled {
						d = 50 * time.Millisecond
					}
					time.Sleep(d)
					S.Settle()
					continue
				}
				if blocked > 0 {
					// the reader has not consumed the other queue yet and nothing else can
					// run: let a little virtual time pass (never happens unless it is stuck)
					time.Sleep(time.Millisecond)
					S.Settle()
					r.Stats["constraint_wait"]++
					if r.Stats["constraint_wait"] > 2000 {
						return false
					}
					continue
				}
				return true
			}
			tape.Frame()
			if sqlFault && !sqlArmed && c.steps >= sqlFaultAt {
				sqlArmed = true
				S.Arm(FaultStmtErr, 1+tape.Intn(4), nil)
				r.ev("storage fault armed: the next statements of the server fail once")
			}
			S.Resume(allowed[tape.Intn(len(allowed))])
			c.steps++
			if sqlArmed && !sqlDone {
				if S.Fired() {
					sqlDone = true
					S.Disarm()
					r.Stats["push_sql_fault_fired"]++
					r.ev("storage fault fired")
					// everything delivered or in flight so far is unknown from here on (applied to
					// the model in commit order with the other operations, at the next quiescence)
					at := time.Now()
					pending = append(pending, seqOp{S.commitSeq, func() *Violation {
						for _, s2 := range r.M.AllSubs {
							for _, e := range s2.EDs {
								if e.State != stGone {
									e.Fuzzy = true
									e.LeaseLo = epoch
									e.LeaseHi, e.RetHi = farFuture, farFuture
									if e.Sub.Cfg.fullDL() && e.State == stOut {
										r.M.deadLetterMaybe(e, at)
									}
								}
							}
						}
						return nil
					}})
					ps.faultAt = at
					ps.faultOpen = true
				}
			}
		}
		return false
	}
	checkInflight := func() {
		if ps.maxIn > 1000 {
			fail(viol("C19", "window_bounds", "%d pushes in flight at once", ps.maxIn))
		}
		// (not asserted: in flight <= window. The server renews the leases of in-flight pushes
		// on a best-effort timer; when a renewal loses the race with the lease, the same
		// delivery is pushed a second time while the first request is still open, so requests
		// in flight can exceed the window without the pending set doing so.)
	}
	settleNacks := func() {
		clear(ps.nackRace) // quiescent: every nack has been processed
		ps.faultOpen = false
		now := time.Now()
		for _, e := range sub.EDs {
			if e.State == stOut && e.Cause == "nack" && e.LeaseHi.Equal(farFuture) {
				e.LeaseHi = now.Add(nominalBackoff(&sub.Cfg, e.Seen) + time.Second)
			}
		}
	}
	ok := sched(4000)
	rounds := 2 + tape.Intn(3)
	pubCounter := 0
	for round := 0; round < rounds && ok && firstViol == nil; round++ {
		// ---- publishers
		np := 1 + tape.Intn(3)
		for i := 0; i < np; i++ {
			pubCounter++
			id := fmt.Sprintf("pub%d", pubCounter)
			n := 1 + tape.Intn(4)
			c.spawn(id, func(ctx context.Context) {
				for k := 0; k < n; k++ {
					key := ""
					if ordered && tape.Bool(60) {
						key = "K1"
					}
					ap, err := r.pubRaw(ctx, id, 0, r.genPayload(5000+pubCounter*10+k), r.genAttrs(), key)
					if err != nil && sqlFault && strings.Contains(err.Error(), "simulated storage failure") {
						// the injected storage error hit this publish: nothing was stored, retry
						ap, err = r.pubRaw(ctx, id, 0, r.genPayload(5000+pubCounter*10+k), r.genAttrs(), key)
					}
					if err != nil {
						fail(viol("C12", "status", "%s: %v", id, err))
						return
					}
					pending = append(pending, seqOp{S.TaskCommit(id), ap})
				}
			})
		}
		if round == rounds-1 && tape.Bool(30) {
			c.spawn("unpush", func(ctx context.Context) {
				_, err := w.Call(ctx, "ModifyPushConfig", &pubsubpb.ModifyPushConfigRequest{Subscription: sub.Name, PushConfig: &pubsubpb.PushConfig{}})
				r.ev("ModifyPushConfig (remove endpoint) -> %v", code(err))
				if err == nil {
					ps.stopped, ps.stopAt = true, time.Now()
					sub.Cfg.Push = ""
				}
			})
		}
		ok = sched(6000)
		if !ok || firstViol != nil {
			break
		}
		fail(flush())
		settleNacks()
		checkInflight()
		if firstViol != nil {
			break
		}
		// ---- let the backoffs pass: failed pushes must come again
		if !ps.stopped {
			var latest time.Time
			for _, e := range sub.EDs {
				if e.State == stOut && !e.Fuzzy && e.LeaseHi.After(latest) && e.LeaseHi.Before(farFuture) && e.LeaseHi.Before(e.RetLo) {
					latest = e.LeaseHi
				}
			}
			if latest.After(time.Now()) {
				// a nack does not wake the streamer's fetch: it notices the rescheduled
				// delivery when its own wait (<= 59 s) ends, so allow that on top of the backoff
				d := time.Until(latest) + 61*time.Second
				// advance in slices so that timers in between get scheduled
				for d > 0 && ok && firstViol == nil {
					step := d
					if step > 50*time.Millisecond {
						step = 50 * time.Millisecond
					}
					time.Sleep(step)
					S.Settle()
					d -= step
					ok = sched(6000)
				}
				r.ev("advanced past the backoffs to %v", time.Since(epoch))
				if ok && firstViol == nil {
					fail(flush())
					settleNacks()
				}
			}
			if ok && firstViol == nil {
				now := time.Now()
				hung := 0
				for _, p := range ps.reqs {
					if !p.done {
						hung++
					}
				}
				win := 1
				if st := streamer(); st != nil {
					win = st.CurrentFlowControl().MaxMessages
				}
				inFlight := map[string]bool{}
				for _, p := range ps.reqs {
					if !p.done {
						inFlight[p.ack] = true // its lease is being renewed while the request hangs
					}
				}
				var must []*ED
				for _, e := range r.M.MustDeliverable(sub, now, now) {
					if !inFlight[e.AckID] {
						must = append(must, e)
					}
				}
				r.Stats["push_quiescent_checks"]++
				if len(must) > 0 && hung < win {
					fail(viol("C19", "not_pushed_again", "%d message(s) are deliverable on the push subscription (backoff over since %v) but are not being pushed; %d request(s) in flight, window %d; e.g. %v", len(must), must[0].LeaseHi.Sub(epoch), hung, win, must[0]))
				}
			}
		}
	}
	if !ok {
		r.Stats["truncated"]++
	}
	r.Stats["push_requests"] += len(ps.reqs)
	r.Stats["push_max_inflight"] += ps.maxIn
	for _, p := range ps.reqs {
		r.Stats[fmt.Sprintf("http_status_%d", p.status)]++
	}
	if sqlArmed && !sqlDone {
		S.Disarm() // armed but never reached: it must not hit the shutdown or the epilogue's own requests
	}
	pusherTask.cancel()
	c.finish()
	// stop the service (idempotent) outside the scheduler
	_ = svc.Cleanup(context.Background())
	S.Settle()
	r.M.Concurrent = false
	sub.attached = false
	r.Stats["conc_steps"] += c.steps
	if firstViol == nil && ok {
		firstViol = flush()
	}
	if firstViol != nil {
		out.v = firstViol
		return
	}
	if !ok {
		return
	}
	// sequential epilogue: nothing acknowledged by a success response may ever be pulled;
	// everything else is still there (unknown lease state after the cancelled pushes)
	for _, e := range sub.EDs {
		if e.State == stOut {
			e.Fuzzy = true
		}
		if strings.HasPrefix(e.AckID, "push|") {
			// pushes carry no ack id; the synthetic one is dropped so that a real ack id
			// seen by the pulls of the epilogue can bind to the same expectation
			delete(r.M.AckIDs, e.AckID)
			e.AckID = ""
		}
	}
	out.v = r.drain()
	_ = codes.OK
}

func init() { engines["push"] = runPush }

// pushtiny: boundary values of the retry policy on a push subscription. A minimum backoff of
// a few nanoseconds is accepted by CreateSubscription; the pusher must serve such a
// subscription (and must not take the server down). Oracle: the process survives, every
// envelope is well-formed, every published message is POSTed at least once.
func runPushTiny(t *testing.T, tape *Tape, w *World, variant string, steps int, out *runOutcome) {
	r := newSetupRun(tape, w, "push")
	out.stats = r.Stats
	defer func() {
		out.trace, out.probes, out.hashes = r.Trace, r.M.Probes, r.Hashes
		out.sample = sampleOf(r.Trace)
	}()
	if services.VerifHTTPPusher == nil {
		panic("HARNESS: push overlay not available")
	}
	tape.Frame()
	r.nTopics, r.nSubs = 1, 1
	if v := r.xTopic(0); v != nil {
		out.v = v
		return
	}
	minB := []time.Duration{time.Nanosecond, 2 * time.Nanosecond, 3 * time.Nanosecond, time.Microsecond, time.Millisecond}[tape.Intn(5)]
	endpoint := "http://push.sim.invalid/endpoint"
	if v := r.xSub(0, 0, func(c *SubCfg, q *pubsubpb.Subscription) {
		c.Push, q.PushConfig = endpoint, &pubsubpb.PushConfig{PushEndpoint: endpoint}
		c.MinB = minB
		q.RetryPolicy = &pubsubpb.RetryPolicy{MinimumBackoff: durationpbNew(minB)}
	}); v != nil {
		out.v = v
		return
	}
	r.ev("push subscription with minimum backoff %v", minB)
	if tape.Bool(50) {
		// a second push subscription whose endpoint is not a usable URL (the API stores any
		// string): its pushes can only fail, the server has to live with it
		bad := []string{"http://[::1", "http://a b.invalid/x", "http://push.invalid:port/x", "%zz", ":no-scheme", "http://push.invalid/\x7f", "ht!tp://x", " "}[tape.Intn(8)]
		_, err := w.Call(context.Background(), "CreateSubscription", &pubsubpb.Subscription{Name: "projects/p/subscriptions/badpush", Topic: topicName(0), PushConfig: &pubsubpb.PushConfig{PushEndpoint: bad}})
		if p, ok := isPanic(err); ok {
			out.v = viol("C16", "panic:CreateSubscription", "%v", p.Val)
			return
		}
		r.ev("push subscription with endpoint %q -> %v", bad, code(err))
		r.Stats["malformed_push_endpoint"]++
	}
	sub := r.M.LiveSub(subName(0))
	sub.attached = true
	var firstViol *Violation
	fail := func(v *Violation) {
		if firstViol == nil && v != nil {
			firstViol = v
		}
	}
	ps := &pushSim{r: r, sub: sub, fail: fail, seen: map[string]int{}, nackRace: map[string]bool{}, lenient: true}
	ps.pending = &ps.sink
	ps.script = func(p *pushReq) { p.status = []int{200, 204}[tape.Intn(2)] }
	oldTransport := http.DefaultTransport
	http.DefaultTransport = ps
	defer func() { http.DefaultTransport = oldTransport }()
	r.M.Concurrent = true
	S.on = true
	c := &conc{t: tape}
	svc := services.VerifHTTPPusher()
	if err := svc.Initialize(context.Background(), w.Client); err != nil {
		panic("HARNESS: pusher init: " + err.Error())
	}
	ready := make(chan struct{})
	pusherTask := c.spawn("pusher", func(ctx context.Context) {
		if err := svc.Start(ctx, ready); err != nil && !errors.Is(err, context.Canceled) {
			fail(viol("C19", "pusher_died", "http pusher service ended with %v", err))
		}
	})
	var ids []string
	n := 1 + tape.Intn(3)
	c.spawn("pub", func(ctx context.Context) {
		for k := 0; k < n; k++ {
			resp, err := w.Call(ctx, "Publish", &pubsubpb.PublishRequest{Topic: topicName(0), Messages: []*pubsubpb.PubsubMessage{{Data: r.genPayload(7000 + k)}}})
			if err != nil {
				fail(viol("C12", "status", "Publish: %v", err))
				return
			}
			mid, v := oneMessageID(resp)
			if v != nil {
				fail(v)
				return
			}
			ids = append(ids, mid)
		}
	})
	for slice := 0; slice < 40 && firstViol == nil; slice++ {
		if _, ok := c.run(1500, nil); !ok {
			break
		}
		time.Sleep(50 * time.Millisecond)
		S.Settle()
	}
	pusherTask.cancel()
	c.finish()
	_ = svc.Cleanup(context.Background())
	S.Settle()
	r.M.Concurrent = false
	r.Stats["conc_steps"] += c.steps
	r.Stats["push_requests"] += len(ps.reqs)
	if firstViol == nil {
		for _, id := range ids {
			if ps.seen[id] == 0 {
				firstViol = viol("C19", "never_pushed", "message %s on a push subscription with minimum backoff %v was never POSTed in 2 s (%d requests in all)", id, minB, len(ps.reqs))
				break
			}
		}
	}
	out.v = firstViol
}

func init() { engines["pushtiny"] = runPushTiny }

// pushtoggle (C19): a busy push subscription is switched off and on again. Warm-up of fast
// successes (the window grows), then an endpoint that answers nothing while more than ten
// pushes are outstanding, then ModifyPushConfig with an empty endpoint (the pusher is stopped,
// its outstanding POSTs are aborted), then the endpoint is configured again and answers
// quickly: every message that was outstanding has to be POSTed again and acknowledged. The
// oracle is deliberately coarse (the reference model is not consulted): "POSTed successfully
// after push was switched on again, within a minute of virtual time".
func runPushToggle(t *testing.T, tape *Tape, w *World, variant string, steps int, out *runOutcome) {
	r := newSetupRun(tape, w, "push")
	out.stats = r.Stats
	defer func() {
		out.trace, out.probes, out.hashes = r.Trace, r.M.Probes, r.Hashes
		out.sample = sampleOf(r.Trace)
	}()
	if services.VerifHTTPPusher == nil {
		panic("HARNESS: push overlay not available")
	}
	tape.Frame()
	r.nTopics, r.nSubs = 1, 1
	if v := r.xTopic(0); v != nil {
		out.v = v
		return
	}
	endpoint := "http://push.sim.invalid/endpoint"
	if v := r.xSub(0, 0, func(c *SubCfg, q *pubsubpb.Subscription) {
		c.Push, q.PushConfig = endpoint, &pubsubpb.PushConfig{PushEndpoint: endpoint}
		c.MinB = time.Second
		q.RetryPolicy = &pubsubpb.RetryPolicy{MinimumBackoff: durationpbNew(time.Second)}
	}); v != nil {
		out.v = v
		return
	}
	sub := r.M.LiveSub(subName(0))
	sub.attached = true
	var firstViol *Violation
	fail := func(v *Violation) {
		if firstViol == nil && v != nil {
			firstViol = v
		}
	}
	ps := &pushSim{r: r, sub: sub, fail: fail, seen: map[string]int{}, nackRace: map[string]bool{}, lenient: true}
	ps.pending = &ps.sink
	phase := 0
	ps.script = func(p *pushReq) {
		switch phase {
		case 1:
			p.status = -1 // answers nothing until the request is aborted
		default:
			p.status = []int{200, 204}[tape.Intn(2)]
		}
	}
	oldTransport := http.DefaultTransport
	http.DefaultTransport = ps
	defer func() { http.DefaultTransport = oldTransport }()
	r.M.Concurrent = true
	S.on = true
	c := &conc{t: tape}
	svc := services.VerifHTTPPusher()
	if err := svc.Initialize(context.Background(), w.Client); err != nil {
		panic("HARNESS: pusher init: " + err.Error())
	}
	ready := make(chan struct{})
	pusherTask := c.spawn("pusher", func(ctx context.Context) {
		if err := svc.Start(ctx, ready); err != nil && !errors.Is(err, context.Canceled) {
			fail(viol("C19", "pusher_died", "http pusher service ended with %v", err))
		}
	})
	publish := func(n, base int) []string {
		var ids []string
		for k := 0; k < n; k++ {
			resp, err := w.Call(context.Background(), "Publish", &pubsubpb.PublishRequest{Topic: topicName(0), Messages: []*pubsubpb.PubsubMessage{{Data: r.genPayload(base + k)}}})
			if err != nil {
				fail(viol("C12", "status", "Publish: %v", err))
				return ids
			}
			id, v := oneMessageID(resp)
			if v != nil {
				fail(v)
				return ids
			}
			ids = append(ids, id)
		}
		return ids
	}
	succeeded := func(id string, since time.Time) bool {
		for _, p := range ps.reqs {
			if p.msgID == id && p.done && p.class != 2 && p.status > 0 && !p.arrived.Before(since) {
				return true
			}
		}
		return false
	}
	slices := func(max int, until func() bool) bool {
		for k := 0; k < max && firstViol == nil; k++ {
			if _, ok := c.run(2500, nil); !ok {
				return false
			}
			if until() {
				return true
			}
			time.Sleep(50 * time.Millisecond)
			S.Settle()
		}
		return until()
	}
	finish := func() {
		pusherTask.cancel()
		c.finish()
		_ = svc.Cleanup(context.Background())
		S.Settle()
		r.M.Concurrent = false
		r.Stats["conc_steps"] += c.steps
		r.Stats["push_requests"] += len(ps.reqs)
	}
	// ---- warm-up: the window grows with every fast success
	n0 := 12 + tape.Intn(8)
	t0 := time.Now()
	warm := publish(n0, 8000)
	if !slices(400, func() bool {
		for _, id := range warm {
			if !succeeded(id, t0) {
				return false
			}
		}
		return true
	}) {
		r.Stats["pushtoggle_void_warmup"]++
		finish()
		out.v = firstViol
		return
	}
	// ---- the endpoint goes silent; more than ten pushes pile up
	phase = 1
	n1 := 13 + tape.Intn(10)
	held := publish(n1, 8100)
	if !slices(200, func() bool { return ps.inflight >= 11 }) {
		r.Stats["pushtoggle_void_window"]++
		finish()
		out.v = firstViol
		return
	}
	r.ev("%d pushes outstanding at a silent endpoint", ps.inflight)
	// ---- push is switched off ...
	if _, err := w.Call(context.Background(), "ModifyPushConfig", &pubsubpb.ModifyPushConfigRequest{Subscription: sub.Name, PushConfig: &pubsubpb.PushConfig{}}); err != nil {
		fail(viol("C17", "update_rejected", "ModifyPushConfig (remove endpoint): %v", err))
	}
	slices(40+tape.Intn(40), func() bool { return false })
	// ---- ... and on again, with a healthy endpoint
	phase = 2
	tOn := time.Now()
	if _, err := w.Call(context.Background(), "ModifyPushConfig", &pubsubpb.ModifyPushConfigRequest{Subscription: sub.Name, PushConfig: &pubsubpb.PushConfig{PushEndpoint: endpoint}}); err != nil {
		fail(viol("C17", "update_rejected", "ModifyPushConfig (set endpoint): %v", err))
	}
	r.ev("push switched off and on again")
	all := func() bool {
		for _, id := range held {
			if !succeeded(id, tOn) {
				return false
			}
		}
		return true
	}
	slices(1200, all) // up to a minute of virtual time
	r.Stats["pushtoggle_runs"]++
	if firstViol == nil && !all() {
		missing := 0
		for _, id := range held {
			if !succeeded(id, tOn) {
				missing++
			}
		}
		firstViol = viol("C19", "not_pushed_after_reenable", "%d of the %d messages that were outstanding when push was switched off have not been POSTed successfully %v after it was switched on again (%d requests since)", missing, len(held), time.Since(tOn), func() int {
			n := 0
			for _, p := range ps.reqs {
				if !p.arrived.Before(tOn) {
					n++
				}
			}
			return n
		}())
	}
	out.v = firstViol
	SetEarlyVerdict(firstViol) // (a wedged pusher service would not let finish() return)
	finish()
}

func init() { engines["pushtoggle"] = runPushToggle }
