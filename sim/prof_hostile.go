package sim

// hostile (C16): requests built from per-field boundary domains on every implemented RPC,
// fired at a server holding real state, through the production interceptor chain.
// Oracle: (1) the call returns a status (a panic through the chain = the server process
// would terminate); (2) a request answered with an error leaves the five tables unchanged;
// (3) the server is not wedged: a fixed publish / pull / ack probe keeps working.

import (
	"context"
	"fmt"
	"math"
	"strings"
	"testing"
	"time"

	"github.com/google/uuid"
	"google.golang.org/grpc/codes"
	"google.golang.org/protobuf/proto"
	"google.golang.org/protobuf/types/known/durationpb"
	"google.golang.org/protobuf/types/known/fieldmaskpb"
	"google.golang.org/protobuf/types/known/timestamppb"

	"go.6river.tech/mmmbbb/grpc/pubsubpb"
)

type hsRun struct {
	t      *Tape
	w      *World
	trace  []string
	stats  map[string]int
	ackIDs []string
	cells  map[uint64]bool
	nprobe int
	sizes  []int // payload sizes of the messages published to the fixture topic
}

func (r *hsRun) ev(f string, a ...any) { r.trace = append(r.trace, fmt.Sprintf(f, a...)) }

const hsTopic = "projects/h/topics/good"
const hsSub = "projects/h/subscriptions/good"
const hsSub2 = "projects/h/subscriptions/other"
const hsSnap = "projects/h/snapshots/snap"

func (r *hsRun) nameOf(kind string) string {
	t := r.t
	good := map[string]string{"topics": hsTopic, "subscriptions": hsSub, "snapshots": hsSnap}[kind]
	switch t.Intn(10) {
	case 0:
		return ""
	case 1:
		return "projects/h/" + kind + "/unknown"
	case 2: // wrong kind
		if kind == "topics" {
			return hsSub
		}
		return hsTopic
	case 3:
		return "projects/h"
	case 4:
		return good + "/extra"
	case 5:
		return "x"
	case 6:
		return "projects//" + kind + "/a"
	case 7:
		if kind == "subscriptions" {
			return hsSub2
		}
		return good
	default:
		return good
	}
}

func (r *hsRun) i32() int32 {
	return []int32{math.MinInt32, -1, 0, 1, 2, math.MaxInt32}[r.t.Intn(6)]
}

func (r *hsRun) dur() *durationpb.Duration {
	switch r.t.Intn(8) {
	case 0:
		return nil
	case 1:
		return durationpb.New(-time.Second)
	case 2:
		return durationpb.New(0)
	case 3:
		return durationpb.New(time.Nanosecond)
	case 4:
		return &durationpb.Duration{Seconds: 315576000000}
	case 5:
		return &durationpb.Duration{Seconds: -315576000000}
	case 6:
		return &durationpb.Duration{Seconds: 1, Nanos: -5}
	default:
		return durationpb.New(10 * time.Minute)
	}
}

func (r *hsRun) ts() *timestamppb.Timestamp {
	switch r.t.Intn(7) {
	case 0:
		return nil
	case 1:
		return timestamppb.New(time.Time{}) // Go zero time
	case 2:
		return &timestamppb.Timestamp{}
	case 3:
		return &timestamppb.Timestamp{Seconds: -62135596801}
	case 4:
		return &timestamppb.Timestamp{Seconds: 253402300799}
	case 5:
		return &timestamppb.Timestamp{Seconds: 1, Nanos: -1}
	default:
		return timestamppb.New(time.Now())
	}
}

func (r *hsRun) ackList() []string {
	t := r.t
	n := t.Intn(4)
	var out []string
	for i := 0; i < n; i++ {
		switch t.Intn(5) {
		case 0:
			out = append(out, "not-a-uuid")
		case 1:
			out = append(out, "")
		case 2:
			out = append(out, uuid.NewSHA1(uuid.Nil, []byte{byte(t.Intn(200))}).String())
		default:
			if len(r.ackIDs) > 0 {
				out = append(out, r.ackIDs[t.Intn(len(r.ackIDs))])
			} else {
				out = append(out, uuid.Nil.String())
			}
		}
	}
	return out
}

func (r *hsRun) mask(known []string) *fieldmaskpb.FieldMask {
	t := r.t
	switch t.Intn(6) {
	case 0:
		return nil
	case 1:
		return &fieldmaskpb.FieldMask{}
	case 2:
		return &fieldmaskpb.FieldMask{Paths: []string{"bogus"}}
	case 3:
		p := known[t.Intn(len(known))]
		return &fieldmaskpb.FieldMask{Paths: []string{p, p}}
	case 4:
		return &fieldmaskpb.FieldMask{Paths: known}
	default:
		return &fieldmaskpb.FieldMask{Paths: []string{known[t.Intn(len(known))]}}
	}
}

func (r *hsRun) payload() []byte {
	return [][]byte{[]byte(`{"ok":1}`), []byte("abc"), nil, []byte("null"), []byte(`{"unterminated":`), []byte(`"str"`), []byte("\xff\xfe")}[r.t.Intn(7)]
}

func (r *hsRun) pageToken() string {
	return []string{"", "garbage", uuid.Nil.String(), "ffffffff-ffff-ffff-ffff-ffffffffffff"}[r.t.Intn(4)]
}

func (r *hsRun) pushCfg() *pubsubpb.PushConfig {
	switch r.t.Intn(6) {
	case 0:
		return nil
	case 1:
		return &pubsubpb.PushConfig{}
	case 2:
		return &pubsubpb.PushConfig{PushEndpoint: "http://example.invalid/push", Attributes: map[string]string{"x-goog-version": "v1"}}
	case 3:
		return &pubsubpb.PushConfig{Attributes: map[string]string{"bogus": "1"}}
	case 4:
		return &pubsubpb.PushConfig{AuthenticationMethod: &pubsubpb.PushConfig_OidcToken_{OidcToken: &pubsubpb.PushConfig_OidcToken{}}}
	default:
		return &pubsubpb.PushConfig{Wrapper: &pubsubpb.PushConfig_NoWrapper_{NoWrapper: &pubsubpb.PushConfig_NoWrapper{}}}
	}
}

func (r *hsRun) subscriptionMsg() *pubsubpb.Subscription {
	t := r.t
	if t.Intn(8) == 0 {
		return nil
	}
	s := &pubsubpb.Subscription{Name: r.nameOf("subscriptions"), Topic: r.nameOf("topics")}
	if t.Bool(40) {
		s.Name = fmt.Sprintf("projects/h/subscriptions/new%d", t.Intn(3))
		s.Topic = hsTopic
	}
	if t.Bool(40) {
		s.MessageRetentionDuration = r.dur()
	}
	if t.Bool(40) {
		s.ExpirationPolicy = &pubsubpb.ExpirationPolicy{Ttl: r.dur()}
	}
	if t.Bool(30) {
		s.RetryPolicy = &pubsubpb.RetryPolicy{MinimumBackoff: r.dur(), MaximumBackoff: r.dur()}
	}
	if t.Bool(40) {
		s.DeadLetterPolicy = &pubsubpb.DeadLetterPolicy{DeadLetterTopic: r.nameOf("topics"), MaxDeliveryAttempts: r.i32()}
		if t.Bool(30) {
			s.DeadLetterPolicy.DeadLetterTopic = ""
		}
	}
	if t.Bool(30) {
		s.Filter = []string{"attributes:kind", "((", "attributes.x = ", "NOT", `hasPrefix(attributes.k, "v")`, strings.Repeat("(", 60)}[t.Intn(6)]
	}
	if t.Bool(20) {
		s.PushConfig = r.pushCfg()
	}
	if t.Bool(10) {
		s.Detached = true
	}
	if t.Bool(20) {
		s.AckDeadlineSeconds = r.i32()
	}
	s.EnableMessageOrdering = t.Bool(30)
	return s
}

// gen builds one hostile request; returns rpc name and the message.
func (r *hsRun) gen() (string, proto.Message) {
	t := r.t
	switch t.Intn(22) {
	case 0:
		tp := &pubsubpb.Topic{Name: r.nameOf("topics")}
		if t.Bool(40) {
			tp.Name = fmt.Sprintf("projects/h/topics/new%d", t.Intn(3))
		}
		if t.Bool(15) {
			tp.KmsKeyName = "k"
		}
		if t.Bool(15) {
			tp.MessageStoragePolicy = &pubsubpb.MessageStoragePolicy{}
		}
		if t.Bool(15) {
			tp.SchemaSettings = &pubsubpb.SchemaSettings{}
		}
		return "CreateTopic", tp
	case 1:
		req := &pubsubpb.UpdateTopicRequest{UpdateMask: r.mask([]string{"labels", "name", "kms_key_name"})}
		if !t.Bool(15) {
			req.Topic = &pubsubpb.Topic{Name: r.nameOf("topics"), Labels: map[string]string{"h": "1"}}
		}
		return "UpdateTopic", req
	case 2:
		req := &pubsubpb.PublishRequest{Topic: r.nameOf("topics")}
		n := t.Intn(4)
		for i := 0; i < n; i++ {
			if t.Intn(8) == 0 {
				req.Messages = append(req.Messages, nil)
				continue
			}
			req.Messages = append(req.Messages, &pubsubpb.PubsubMessage{Data: r.payload(), OrderingKey: []string{"", "k"}[t.Intn(2)], MessageId: []string{"", "client-set"}[t.Intn(2)]})
		}
		return "Publish", req
	case 3:
		return "GetTopic", &pubsubpb.GetTopicRequest{Topic: r.nameOf("topics")}
	case 4:
		return "ListTopics", &pubsubpb.ListTopicsRequest{Project: []string{"projects/h", "", "x", "projects/h/"}[t.Intn(4)], PageSize: r.i32(), PageToken: r.pageToken()}
	case 5:
		return "ListTopicSubscriptions", &pubsubpb.ListTopicSubscriptionsRequest{Topic: r.nameOf("topics"), PageSize: r.i32(), PageToken: r.pageToken()}
	case 6:
		return "DeleteTopic", &pubsubpb.DeleteTopicRequest{Topic: r.nameOf("topics")}
	case 7:
		if s := r.subscriptionMsg(); s != nil {
			return "CreateSubscription", s
		}
		return "CreateSubscription", &pubsubpb.Subscription{}
	case 8:
		return "GetSubscription", &pubsubpb.GetSubscriptionRequest{Subscription: r.nameOf("subscriptions")}
	case 9:
		return "UpdateSubscription", &pubsubpb.UpdateSubscriptionRequest{Subscription: r.subscriptionMsg(), UpdateMask: r.mask([]string{"labels", "expiration_policy", "message_retention_duration", "retry_policy", "push_config", "filter", "dead_letter_policy", "enable_message_ordering", "name", "topic", "ack_deadline_seconds"})}
	case 10:
		return "ListSubscriptions", &pubsubpb.ListSubscriptionsRequest{Project: []string{"projects/h", "", "x"}[t.Intn(3)], PageSize: r.i32(), PageToken: r.pageToken()}
	case 11:
		return "DeleteSubscription", &pubsubpb.DeleteSubscriptionRequest{Subscription: r.nameOf("subscriptions")}
	case 12:
		return "ModifyAckDeadline", &pubsubpb.ModifyAckDeadlineRequest{Subscription: r.nameOf("subscriptions"), AckIds: r.ackList(), AckDeadlineSeconds: r.i32()}
	case 13:
		return "Acknowledge", &pubsubpb.AcknowledgeRequest{Subscription: r.nameOf("subscriptions"), AckIds: r.ackList()}
	case 14:
		return "Pull", &pubsubpb.PullRequest{Subscription: r.nameOf("subscriptions"), MaxMessages: r.i32(), ReturnImmediately: true}
	case 15:
		return "ModifyPushConfig", &pubsubpb.ModifyPushConfigRequest{Subscription: r.nameOf("subscriptions"), PushConfig: r.pushCfg()}
	case 16:
		return "GetSnapshot", &pubsubpb.GetSnapshotRequest{Snapshot: r.nameOf("snapshots")}
	case 17:
		return "ListSnapshots", &pubsubpb.ListSnapshotsRequest{Project: []string{"projects/h", "", "x"}[t.Intn(3)], PageSize: r.i32(), PageToken: r.pageToken()}
	case 18:
		return "CreateSnapshot", &pubsubpb.CreateSnapshotRequest{Name: r.nameOf("snapshots"), Subscription: r.nameOf("subscriptions")}
	case 19:
		return "DeleteSnapshot", &pubsubpb.DeleteSnapshotRequest{Snapshot: r.nameOf("snapshots")}
	case 20:
		req := &pubsubpb.SeekRequest{Subscription: r.nameOf("subscriptions")}
		switch t.Intn(3) {
		case 0:
			req.Target = &pubsubpb.SeekRequest_Time{Time: r.ts()}
		case 1:
			req.Target = &pubsubpb.SeekRequest_Snapshot{Snapshot: r.nameOf("snapshots")}
		}
		return "Seek", req
	default:
		return "UpdateSnapshot", &pubsubpb.UpdateSnapshotRequest{Snapshot: &pubsubpb.Snapshot{Name: r.nameOf("snapshots")}, UpdateMask: r.mask([]string{"labels"})}
	}
}

func (r *hsRun) ensure() *Violation {
	// (re)create the healthy fixtures if a hostile delete removed them
	call := func(m string, req proto.Message) error { _, err := r.w.Call(context.Background(), m, req); return err }
	for _, e := range []struct {
		m   string
		req proto.Message
	}{
		{"CreateTopic", &pubsubpb.Topic{Name: hsTopic}},
		{"CreateSubscription", &pubsubpb.Subscription{Name: hsSub, Topic: hsTopic}},
		{"CreateSubscription", &pubsubpb.Subscription{Name: hsSub2, Topic: hsTopic, EnableMessageOrdering: true}},
		{"CreateSnapshot", &pubsubpb.CreateSnapshotRequest{Name: hsSnap, Subscription: hsSub}},
	} {
		err := call(e.m, e.req)
		if p, ok := isPanic(err); ok {
			return viol("C16", "panic:fixture:"+e.m, "%s of a fixture panicked: %v", e.m, p.Val)
		}
		if c := code(err); c != codes.OK && c != codes.AlreadyExists {
			return viol("C16", "wedged", "cannot (re)create fixture with %s: %v", e.m, err)
		}
	}
	return nil
}

// probe: the server still serves a normal create / publish / pull / ack / delete on fresh
// resources that no hostile request can have touched
func (r *hsRun) probe() *Violation {
	if v := r.ensure(); v != nil {
		return v
	}
	r.nprobe++
	ctx := context.Background()
	tn := fmt.Sprintf("projects/probe/topics/t%d", r.nprobe)
	sn := fmt.Sprintf("projects/probe/subscriptions/s%d", r.nprobe)
	step := func(what string, m string, req proto.Message) (proto.Message, *Violation) {
		t0 := time.Now()
		resp, err := r.w.Call(ctx, m, req)
		if err != nil {
			return nil, viol("C16", "wedged", "probe %s failed after hostile requests: %v", what, err)
		}
		if time.Since(t0) > time.Second {
			return nil, viol("C16", "wedged", "probe %s took %v of virtual time", what, time.Since(t0))
		}
		return resp, nil
	}
	if _, v := step("CreateTopic", "CreateTopic", &pubsubpb.Topic{Name: tn}); v != nil {
		return v
	}
	if _, v := step("CreateSubscription", "CreateSubscription", &pubsubpb.Subscription{Name: sn, Topic: tn}); v != nil {
		return v
	}
	data := []byte(fmt.Sprintf(`{"probe":%d}`, r.nprobe))
	resp, v := step("Publish", "Publish", &pubsubpb.PublishRequest{Topic: tn, Messages: []*pubsubpb.PubsubMessage{{Data: data}}})
	if v != nil {
		return v
	}
	id, v := oneMessageID(resp)
	if v != nil {
		return v
	}
	presp, v := step("Pull", "Pull", &pubsubpb.PullRequest{Subscription: sn, MaxMessages: 10, ReturnImmediately: true})
	if v != nil {
		return v
	}
	rms := presp.(*pubsubpb.PullResponse).ReceivedMessages
	if len(rms) != 1 || rms[0].Message.MessageId != id {
		return viol("C16", "wedged", "probe message was not delivered on a fresh subscription (%d messages)", len(rms))
	}
	if _, v := step("Acknowledge", "Acknowledge", &pubsubpb.AcknowledgeRequest{Subscription: sn, AckIds: []string{rms[0].AckId}}); v != nil {
		return v
	}
	if _, v := step("DeleteSubscription", "DeleteSubscription", &pubsubpb.DeleteSubscriptionRequest{Subscription: sn}); v != nil {
		return v
	}
	if _, v := step("DeleteTopic", "DeleteTopic", &pubsubpb.DeleteTopicRequest{Topic: tn}); v != nil {
		return v
	}
	// keep some live ack ids of the fixtures around for the hostile ack lists
	if p2, err := r.w.Call(ctx, "Pull", &pubsubpb.PullRequest{Subscription: hsSub, MaxMessages: 5, ReturnImmediately: true}); err == nil {
		for _, rm := range p2.(*pubsubpb.PullResponse).ReceivedMessages {
			r.ackIDs = append(r.ackIDs, rm.AckId)
		}
	} else if p, ok := isPanic(err); ok {
		return viol("C16", "panic:Pull", "Pull on fixture panicked: %v", p.Val)
	}
	if _, err := r.w.Call(ctx, "Publish", &pubsubpb.PublishRequest{Topic: hsTopic, Messages: []*pubsubpb.PubsubMessage{{Data: data, Attributes: map[string]string{"kind": "a"}}}}); err != nil && code(err) != codes.NotFound {
		return viol("C16", "wedged", "Publish to fixture topic failed: %v", err)
	} else if err == nil {
		r.sizes = append(r.sizes, len(data))
		if len(r.sizes) > 6 {
			r.sizes = r.sizes[len(r.sizes)-6:]
		}
	}
	if len(r.ackIDs) > 40 {
		r.ackIDs = r.ackIDs[len(r.ackIDs)-40:]
	}
	return nil
}

func fieldSig(m proto.Message) string {
	b, _ := proto.Marshal(m)
	h := uint64(1469598103934665603)
	for _, c := range b {
		h = (h ^ uint64(c)) * 1099511628211
	}
	return fmt.Sprintf("%x", h)
}

func (r *hsRun) streamFrames() []*pubsubpb.StreamingPullRequest {
	t := r.t
	first := &pubsubpb.StreamingPullRequest{Subscription: r.nameOf("subscriptions"), StreamAckDeadlineSeconds: r.i32(), MaxOutstandingMessages: []int64{math.MinInt64, -1, 0, 1, 3, math.MaxInt64}[t.Intn(6)], MaxOutstandingBytes: []int64{math.MinInt64, -1, 0, 1, 100, math.MaxInt64}[t.Intn(6)], ClientId: "h"}
	if len(r.sizes) > 0 && t.Bool(35) {
		// a byte window that the queued fixture messages fill exactly (boundary of the window)
		first.Subscription = hsSub
		first.MaxOutstandingMessages = []int64{2, 3, 10}[t.Intn(3)]
		first.MaxOutstandingBytes = int64(r.sizes[t.Intn(len(r.sizes))])
		if t.Bool(50) {
			first.MaxOutstandingBytes += int64(r.sizes[t.Intn(len(r.sizes))])
		}
	}
	if t.Bool(30) {
		first.AckIds = r.ackList()
	}
	frames := []*pubsubpb.StreamingPullRequest{first}
	n := t.Intn(3)
	for i := 0; i < n; i++ {
		f := &pubsubpb.StreamingPullRequest{AckIds: r.ackList(), ModifyDeadlineAckIds: r.ackList()}
		for range f.ModifyDeadlineAckIds {
			f.ModifyDeadlineSeconds = append(f.ModifyDeadlineSeconds, r.i32())
		}
		if t.Bool(25) {
			f.ModifyDeadlineSeconds = append(f.ModifyDeadlineSeconds, 5) // length mismatch
		}
		if t.Bool(20) {
			f.Subscription = hsSub2 // only allowed on the first frame
		}
		frames = append(frames, f)
	}
	return frames
}

func (r *hsRun) step() *Violation {
	t := r.t
	t.Frame()
	if t.Intn(12) == 0 {
		// StreamingPull with hostile frames, closed by the client afterwards
		frames := r.streamFrames()
		in := make(chan *pubsubpb.StreamingPullRequest, len(frames))
		for _, f := range frames {
			in <- f
		}
		close(in)
		var serr error
		ctx, cancel := context.WithCancel(context.Background())
		ok := S.RunTaskFirst(ctx, "hostile-stream", func(c context.Context) {
			fs := &fakeStream{ctx: c, in: in, sent: func(resp *pubsubpb.StreamingPullResponse) {
				for _, rm := range resp.ReceivedMessages {
					r.ackIDs = append(r.ackIDs, rm.AckId)
				}
			}}
			serr = r.w.StreamingPull(fs)
		}, 4000)
		cancel()
		S.Settle()
		r.ev("StreamingPull %d frames (sub=%q) -> %v", len(frames), frames[0].Subscription, code(serr))
		r.stats["rpc_StreamingPull"]++
		if p, isP := isPanic(serr); isP {
			return viol("C16", "panic:StreamingPull", "StreamingPull with frames %v panicked: %v", frames, p.Val)
		}
		if !ok {
			return viol("C16", "wedged", "StreamingPull with frames %v did not terminate after the client closed the stream", frames)
		}
		return nil
	}
	method, req := r.gen()
	if _, err := proto.Marshal(req); err != nil {
		r.stats["unencodable_skipped"]++
		return nil
	}
	before, err := r.w.Dump(method == "Pull")
	if err != nil {
		panic("HARNESS: dump: " + err.Error())
	}
	_, cerr := r.w.Call(context.Background(), method, req)
	c := code(cerr)
	r.ev("%s %s -> %v", method, strings.ReplaceAll(fmt.Sprint(req), "\n", " "), c)
	r.stats["rpc_"+method]++
	r.stats["code_"+c.String()]++
	h := uint64(1469598103934665603)
	for _, ch := range method + "|" + c.String() {
		h = (h ^ uint64(ch)) * 1099511628211
	}
	r.cells[h] = true
	if p, ok := isPanic(cerr); ok {
		return viol("C16", "panic:"+method, "%s %v panicked through the production interceptor chain (the server process would terminate): %v", method, req, p.Val)
	}
	if cerr != nil {
		after, err := r.w.Dump(method == "Pull")
		if err != nil {
			panic("HARNESS: dump: " + err.Error())
		}
		if before != after {
			return viol("C16", "error_changed_state:"+method, "%s %v was answered with %v but changed stored state:\n%s", method, req, cerr, diffLines(before, after))
		}
	}
	if t.Intn(6) == 0 {
		return r.probe()
	}
	return nil
}

func runHostile(t *testing.T, tape *Tape, w *World, variant string, steps int, out *runOutcome) {
	r := &hsRun{t: tape, w: w, stats: map[string]int{}, cells: map[uint64]bool{}}
	tape.Frame()
	S.tick = time.Microsecond
	if v := r.probe(); v != nil {
		out.v = v
	}
	for i := 0; i < steps && out.v == nil; i++ {
		if tape.Exhausted() {
			break
		}
		out.v = r.step()
	}
	if out.v == nil {
		out.v = r.probe()
	}
	out.trace, out.stats, out.hashes = r.trace, r.stats, r.cells
	out.header = 1
	out.sample = sampleOf(r.trace)
}

func init() { engines["hostile"] = runHostile }
