package sim

// names:race (C12): 2-5 tasks race create / delete / get of the same few topic, subscription
// and snapshot names, interleaved at transaction boundaries; the invoke/return history
// (stamped with scheduler event numbers) is checked with porcupine against a set-of-live-names
// model: creating a live name fails with AlreadyExists, deleting makes it reusable at once,
// Get succeeds exactly for live names.

import (
	"context"
	"fmt"
	"testing"
	"time"

	"github.com/anishathalye/porcupine"
	"google.golang.org/grpc/codes"
	"google.golang.org/protobuf/proto"

	"go.6river.tech/mmmbbb/grpc/pubsubpb"
)

type nrIn struct {
	op   string // create | delete | get
	name string
}

type nrOut struct{ code codes.Code }

var nrModel = porcupine.Model{
	Partition: func(history []porcupine.Operation) [][]porcupine.Operation {
		m := map[string][]porcupine.Operation{}
		var keys []string
		for _, o := range history {
			n := o.Input.(nrIn).name
			if _, ok := m[n]; !ok {
				keys = append(keys, n)
			}
			m[n] = append(m[n], o)
		}
		var out [][]porcupine.Operation
		for _, k := range keys {
			out = append(out, m[k])
		}
		return out
	},
	Init: func() interface{} { return false },
	Step: func(state, input, output interface{}) (bool, interface{}) {
		live := state.(bool)
		in, out := input.(nrIn), output.(nrOut)
		switch in.op {
		case "create":
			if live {
				return out.code == codes.AlreadyExists, live
			}
			return out.code == codes.OK, true
		case "delete":
			if live {
				return out.code == codes.OK, false
			}
			return out.code == codes.NotFound, false
		default:
			if live {
				return out.code == codes.OK, live
			}
			return out.code == codes.NotFound, live
		}
	},
	DescribeOperation: func(input, output interface{}) string {
		return fmt.Sprintf("%s(%s) -> %v", input.(nrIn).op, input.(nrIn).name, output.(nrOut).code)
	},
}

func runNamesRace(t *testing.T, tape *Tape, w *World, variant string, steps int, out *runOutcome) {
	var trace []string
	ev := func(f string, a ...any) { trace = append(trace, fmt.Sprintf(f, a...)) }
	stats := map[string]int{}
	defer func() { out.trace, out.stats = trace, stats; out.sample = sampleOf(trace); out.header = 1 }()
	tape.Frame()
	S.tick = time.Microsecond
	ctx0 := context.Background()
	base := "projects/r/topics/base"
	if _, err := w.Call(ctx0, "CreateTopic", &pubsubpb.Topic{Name: base}); err != nil {
		panic("HARNESS: " + err.Error())
	}
	baseSub := "projects/r/subscriptions/base"
	if _, err := w.Call(ctx0, "CreateSubscription", &pubsubpb.Subscription{Name: baseSub, Topic: base}); err != nil {
		panic("HARNESS: " + err.Error())
	}
	kind := []string{"topics", "subscriptions", "snapshots"}[tape.Intn(3)]
	names := []string{"projects/r/" + kind + "/x", "projects/r/" + kind + "/y"}
	mk := func(op, name string) (string, proto.Message) {
		switch kind {
		case "topics":
			switch op {
			case "create":
				return "CreateTopic", &pubsubpb.Topic{Name: name}
			case "delete":
				return "DeleteTopic", &pubsubpb.DeleteTopicRequest{Topic: name}
			}
			return "GetTopic", &pubsubpb.GetTopicRequest{Topic: name}
		case "subscriptions":
			switch op {
			case "create":
				return "CreateSubscription", &pubsubpb.Subscription{Name: name, Topic: base}
			case "delete":
				return "DeleteSubscription", &pubsubpb.DeleteSubscriptionRequest{Subscription: name}
			}
			return "GetSubscription", &pubsubpb.GetSubscriptionRequest{Subscription: name}
		default:
			switch op {
			case "create":
				return "CreateSnapshot", &pubsubpb.CreateSnapshotRequest{Name: name, Subscription: baseSub}
			case "delete":
				return "DeleteSnapshot", &pubsubpb.DeleteSnapshotRequest{Snapshot: name}
			}
			return "GetSnapshot", &pubsubpb.GetSnapshotRequest{Snapshot: name}
		}
	}
	var clock int64
	var ops []porcupine.Operation
	var bad *Violation
	S.on = true
	c := &conc{t: tape}
	nt := 2 + tape.Intn(4)
	for ti := 0; ti < nt; ti++ {
		ti := ti
		n := 1 + tape.Intn(3)
		type pl struct{ op, name string }
		var plan []pl
		for k := 0; k < n; k++ {
			plan = append(plan, pl{[]string{"create", "create", "create", "delete", "get"}[tape.Intn(5)], names[tape.Intn(len(names))]})
		}
		c.spawn(fmt.Sprintf("racer%d", ti), func(ctx context.Context) {
			for _, p := range plan {
				method, req := mk(p.op, p.name)
				clock++
				call := clock
				_, err := w.Call(ctx, method, req)
				clock++
				cd := code(err)
				if pe, ok := isPanic(err); ok {
					bad = viol("C16", "panic:"+method, "%v", pe.Val)
				}
				ops = append(ops, porcupine.Operation{ClientId: ti, Input: nrIn{p.op, p.name}, Call: call, Output: nrOut{cd}, Return: clock})
				ev("racer%d %s(%s) -> %v [%d,%d]", ti, p.op, p.name, cd, call, clock)
				if cd != codes.OK && cd != codes.AlreadyExists && cd != codes.NotFound {
					bad = viol("C12", "race_status", "%s %s under concurrency returned %v (%v)", method, p.name, cd, err)
				}
			}
		})
	}
	_, ok := c.run(20000, nil)
	if !ok {
		stats["truncated"]++
	}
	c.finish()
	stats["conc_steps"] += c.steps
	stats["race_ops"] += len(ops)
	if bad != nil {
		out.v = bad
		return
	}
	switch porcupine.CheckOperationsTimeout(nrModel, ops, 20*time.Second) {
	case porcupine.Illegal:
		out.v = viol("C12", "race_not_linearizable", "concurrent create/delete/get of %s names is not linearizable against the one-live-resource-per-name model (two creates succeeded, a create failed on a free name, or Get disagreed)", kind)
	case porcupine.Unknown:
		stats["porcupine_unknown"]++
	default:
		stats["porcupine_ok"]++
	}
}

func init() { engines["namesrace"] = runNamesRace }
