package sim

// config (C17): create topics/subscriptions with generated accepted configurations, apply
// sequences of updates with every mask subset, read back through Get and List after each
// step and across restarts. Oracle: what was set is what is returned (durations exactly,
// absent and zero retry bounds normalised), fields outside the mask do not move.

import (
	"context"
	"fmt"
	"sort"
	"strings"
	"testing"
	"time"

	"google.golang.org/grpc/codes"
	"google.golang.org/protobuf/proto"
	"google.golang.org/protobuf/types/known/durationpb"
	"google.golang.org/protobuf/types/known/fieldmaskpb"

	"go.6river.tech/mmmbbb/grpc/pubsubpb"
)

type cfgSub struct {
	topic     string
	labels    map[string]string
	retention time.Duration // 0 = defaulted (value pinned at first observation)
	ttl       time.Duration // 0 = defaulted
	ordered   bool
	filter    string
	minB      time.Duration
	maxB      time.Duration
	dlTopic   string
	dlN       int32
	// topicGen / dlGen: which incarnation of the (re-usable) topic name the subscription is
	// bound to; a deleted topic, or a later topic of the same name, is not it
	topicGen, dlGen int
	push            string
}

type cfgRun struct {
	t      *Tape
	w      *World
	trace  []string
	stats  map[string]int
	topics map[string]map[string]string
	gen    map[string]int // incarnations of each topic name so far
	subs   map[string]*cfgSub
	defRet time.Duration
	defTTL time.Duration
	hashes map[uint64]bool
}

func (r *cfgRun) ev(f string, a ...any) { r.trace = append(r.trace, fmt.Sprintf(f, a...)) }

var cfgDurs = []time.Duration{time.Nanosecond, 999 * time.Nanosecond, time.Microsecond + 1, time.Millisecond, 1500 * time.Millisecond, time.Second, 59*time.Second + 999999999, time.Minute, 90 * time.Minute, 24 * time.Hour, 7*24*time.Hour + 1, 31 * 24 * time.Hour, 365 * 24 * time.Hour, 100 * 365 * 24 * time.Hour, 1234567890123456789}

func (r *cfgRun) dur() time.Duration { return cfgDurs[r.t.Intn(len(cfgDurs))] }

func (r *cfgRun) labels() map[string]string {
	switch r.t.Intn(5) {
	case 0:
		return nil
	case 1:
		return map[string]string{}
	case 2:
		return map[string]string{"a": "1"}
	case 3:
		return map[string]string{"ключ": "значение ☃", "empty": "", "<&>": "\"quoted\""}
	default:
		return map[string]string{"a": "2", "b": strings.Repeat("x", 1+r.t.Intn(100))}
	}
}

func cfgTopic(i int) string { return fmt.Sprintf("projects/c/topics/t%d", i) }
func cfgSubN(i int) string  { return fmt.Sprintf("projects/c/subscriptions/s%d", i) }

func labelsEq(a, b map[string]string) bool { return attrsEqual(a, b) }

// fill sets every configurable field of the request from generated values and returns the
// configuration those values denote.
func (r *cfgRun) fill(req *pubsubpb.Subscription, base cfgSub) cfgSub {
	t := r.t
	c := base
	c.labels = r.labels()
	req.Labels = c.labels
	c.retention, c.ttl = 0, 0
	req.MessageRetentionDuration, req.ExpirationPolicy = nil, nil
	if t.Bool(70) {
		c.retention = r.dur()
		req.MessageRetentionDuration = durationpb.New(c.retention)
	}
	if t.Bool(70) {
		c.ttl = r.dur()
		req.ExpirationPolicy = &pubsubpb.ExpirationPolicy{Ttl: durationpb.New(c.ttl)}
	} else if t.Bool(30) {
		req.ExpirationPolicy = &pubsubpb.ExpirationPolicy{}
	}
	c.ordered = t.Bool(50)
	req.EnableMessageOrdering = c.ordered
	c.filter = filterPalette[t.Intn(len(filterPalette))].Text
	req.Filter = c.filter
	c.minB, c.maxB = 0, 0
	req.RetryPolicy = nil
	switch t.Intn(5) {
	case 0:
	case 1:
		req.RetryPolicy = &pubsubpb.RetryPolicy{}
	case 2:
		c.minB = r.dur()
		req.RetryPolicy = &pubsubpb.RetryPolicy{MinimumBackoff: durationpb.New(c.minB)}
	case 3:
		c.maxB = r.dur()
		req.RetryPolicy = &pubsubpb.RetryPolicy{MaximumBackoff: durationpb.New(c.maxB)}
	default:
		c.minB, c.maxB = r.dur(), r.dur()
		req.RetryPolicy = &pubsubpb.RetryPolicy{MinimumBackoff: durationpb.New(c.minB), MaximumBackoff: durationpb.New(c.maxB)}
		if t.Bool(20) {
			c.minB = 0
			req.RetryPolicy.MinimumBackoff = durationpb.New(0)
		}
	}
	c.dlTopic, c.dlN = "", 0
	req.DeadLetterPolicy = nil
	if t.Bool(50) {
		var live []string
		for n := range r.topics {
			live = append(live, n)
		}
		sort.Strings(live)
		if len(live) > 0 {
			c.dlTopic = live[t.Intn(len(live))]
			c.dlGen = r.gen[c.dlTopic]
			c.dlN = int32(t.Intn(8))
			req.DeadLetterPolicy = &pubsubpb.DeadLetterPolicy{DeadLetterTopic: c.dlTopic, MaxDeliveryAttempts: c.dlN}
			if c.dlN == 0 {
				c.dlN = 5 // documented default
			}
		}
	}
	c.push = ""
	req.PushConfig = nil
	switch t.Intn(4) {
	case 0:
		c.push = fmt.Sprintf("http://push.invalid/ep%d", t.Intn(3))
		req.PushConfig = &pubsubpb.PushConfig{PushEndpoint: c.push}
	case 1:
		req.PushConfig = &pubsubpb.PushConfig{}
	}
	return c
}

func (r *cfgRun) checkSub(how string, n string, g *pubsubpb.Subscription) *Violation {
	c := r.subs[n]
	bad := func(field string, got, want any) *Violation {
		return viol("C17", "roundtrip:"+field, "%s %s: %s is %v, expected %v", how, n, field, got, want)
	}
	if g.Name != n {
		return bad("name", g.Name, n)
	}
	wantOwn := c.topic
	if _, live := r.topics[c.topic]; !live || r.gen[c.topic] != c.topicGen {
		wantOwn = "_deleted-topic_"
	}
	// how a topic that no longer exists is named is only pinned down where the property
	// observes (Get / List: the placeholder); the Update response may also still name it
	inUpdate := strings.HasPrefix(how, "Update response")
	if g.Topic != wantOwn && !(inUpdate && wantOwn == "_deleted-topic_" && g.Topic == c.topic) {
		return bad("topic", g.Topic, wantOwn)
	}
	if !labelsEq(g.Labels, c.labels) {
		return bad("labels", g.Labels, c.labels)
	}
	gr := g.MessageRetentionDuration.AsDuration()
	if c.retention != 0 {
		if gr != c.retention {
			return bad("message_retention_duration", gr, c.retention)
		}
	} else {
		if r.defRet == 0 {
			r.defRet = gr
		}
		if gr != r.defRet || gr <= 0 {
			return bad("message_retention_duration(default)", gr, r.defRet)
		}
	}
	gt := g.GetExpirationPolicy().GetTtl().AsDuration()
	if c.ttl != 0 {
		if gt != c.ttl {
			return bad("expiration_policy.ttl", gt, c.ttl)
		}
	} else {
		if r.defTTL == 0 {
			r.defTTL = gt
		}
		if gt != r.defTTL || gt <= 0 {
			return bad("expiration_policy.ttl(default)", gt, r.defTTL)
		}
	}
	if g.EnableMessageOrdering != c.ordered {
		return bad("enable_message_ordering", g.EnableMessageOrdering, c.ordered)
	}
	if g.Filter != c.filter {
		return bad("filter", g.Filter, c.filter)
	}
	if d := g.GetRetryPolicy().GetMinimumBackoff().AsDuration(); d != c.minB {
		return bad("retry_policy.minimum_backoff", d, c.minB)
	}
	if d := g.GetRetryPolicy().GetMaximumBackoff().AsDuration(); d != c.maxB {
		return bad("retry_policy.maximum_backoff", d, c.maxB)
	}
	if c.dlTopic == "" {
		if g.DeadLetterPolicy != nil {
			return bad("dead_letter_policy", g.DeadLetterPolicy, nil)
		}
	} else {
		wantTopic := c.dlTopic
		if _, live := r.topics[c.dlTopic]; !live || r.gen[c.dlTopic] != c.dlGen {
			wantTopic = "_deleted-topic_"
		}
		gotDL := g.GetDeadLetterPolicy().GetDeadLetterTopic()
		if inUpdate && wantTopic == "_deleted-topic_" && gotDL == c.dlTopic {
			gotDL = wantTopic
		}
		if gotDL != wantTopic || g.GetDeadLetterPolicy().GetMaxDeliveryAttempts() != c.dlN {
			return bad("dead_letter_policy", g.DeadLetterPolicy, fmt.Sprintf("%s/%d", wantTopic, c.dlN))
		}
	}
	if g.GetPushConfig().GetPushEndpoint() != c.push {
		return bad("push_config.push_endpoint", g.GetPushConfig().GetPushEndpoint(), c.push)
	}
	return nil
}

func (r *cfgRun) call(m string, req proto.Message) (proto.Message, error) {
	return r.w.Call(context.Background(), m, req)
}

func (r *cfgRun) verifyAll(how string) *Violation {
	var names []string
	for n := range r.subs {
		names = append(names, n)
	}
	sort.Strings(names)
	for _, n := range names {
		resp, err := r.call("GetSubscription", &pubsubpb.GetSubscriptionRequest{Subscription: n})
		if err != nil {
			if p, ok := isPanic(err); ok {
				return viol("C16", "panic:GetSubscription", "%v", p.Val)
			}
			return viol("C17", "get_failed", "%s: GetSubscription %s: %v", how, n, err)
		}
		if v := r.checkSub(how+"/Get", n, resp.(*pubsubpb.Subscription)); v != nil {
			return v
		}
	}
	resp, err := r.call("ListSubscriptions", &pubsubpb.ListSubscriptionsRequest{Project: "projects/c"})
	if err != nil {
		return viol("C17", "list_failed", "%s: ListSubscriptions: %v", how, err)
	}
	for _, g := range resp.(*pubsubpb.ListSubscriptionsResponse).Subscriptions {
		if r.subs[g.Name] == nil {
			return viol("C12", "list_subscriptions", "ListSubscriptions shows %s which is not live", g.Name)
		}
		if v := r.checkSub(how+"/List", g.Name, g); v != nil {
			return v
		}
	}
	var tn []string
	for n := range r.topics {
		tn = append(tn, n)
	}
	sort.Strings(tn)
	for _, n := range tn {
		resp, err := r.call("GetTopic", &pubsubpb.GetTopicRequest{Topic: n})
		if err != nil {
			return viol("C17", "get_failed", "%s: GetTopic %s: %v", how, n, err)
		}
		if !labelsEq(resp.(*pubsubpb.Topic).Labels, r.topics[n]) {
			return viol("C17", "roundtrip:topic.labels", "%s: GetTopic %s labels %v, expected %v", how, n, resp.(*pubsubpb.Topic).Labels, r.topics[n])
		}
	}
	return nil
}

var cfgPaths = []string{"labels", "expiration_policy", "message_retention_duration", "retry_policy", "push_config", "filter", "dead_letter_policy", "enable_message_ordering"}

func (r *cfgRun) step() *Violation {
	t := r.t
	t.Frame()
	switch t.Pick([]int{3, 2, 5, 12, 1, 2, 2, 2}) {
	case 7: // delete topic (its name can be re-used; subscriptions stay bound to the deleted one)
		n := cfgTopic(t.Intn(3))
		_, err := r.call("DeleteTopic", &pubsubpb.DeleteTopicRequest{Topic: n})
		r.ev("DeleteTopic %s -> %v", n, code(err))
		if _, live := r.topics[n]; !live {
			if code(err) != codes.NotFound {
				return viol("C12", "status", "DeleteTopic of missing %s: %v", n, err)
			}
			return nil
		}
		if err != nil {
			return viol("C12", "status", "DeleteTopic %s: %v", n, err)
		}
		delete(r.topics, n)
	case 0: // create topic
		n := cfgTopic(t.Intn(3))
		l := r.labels()
		_, err := r.call("CreateTopic", &pubsubpb.Topic{Name: n, Labels: l})
		r.ev("CreateTopic %s labels=%v -> %v", n, l, code(err))
		if _, live := r.topics[n]; live {
			if code(err) != codes.AlreadyExists {
				return viol("C12", "status", "CreateTopic %s: %v", n, err)
			}
			return nil
		}
		if err != nil {
			return viol("C17", "create_rejected", "CreateTopic %s with labels %v rejected: %v", n, l, err)
		}
		r.topics[n] = l
		r.gen[n]++
	case 1: // update topic labels with mask variants
		n := cfgTopic(t.Intn(3))
		l := r.labels()
		var paths []string
		if t.Bool(75) {
			paths = []string{"labels"}
		}
		_, err := r.call("UpdateTopic", &pubsubpb.UpdateTopicRequest{Topic: &pubsubpb.Topic{Name: n, Labels: l}, UpdateMask: &fieldmaskpb.FieldMask{Paths: paths}})
		r.ev("UpdateTopic %s %v labels=%v -> %v", n, paths, l, code(err))
		if _, live := r.topics[n]; !live {
			if code(err) != codes.NotFound {
				return viol("C12", "status", "UpdateTopic of missing %s: %v", n, err)
			}
			return nil
		}
		if err != nil {
			return viol("C17", "update_rejected", "UpdateTopic %s: %v", n, err)
		}
		if len(paths) == 1 {
			r.topics[n] = l
		}
	case 2: // create subscription
		n := cfgSubN(t.Intn(4))
		tn := cfgTopic(t.Intn(3))
		req := &pubsubpb.Subscription{Name: n, Topic: tn}
		c := r.fill(req, cfgSub{topic: tn, topicGen: r.gen[tn]})
		resp, err := r.call("CreateSubscription", req)
		r.ev("CreateSubscription %v -> %v", strings.ReplaceAll(fmt.Sprint(req), "\n", " "), code(err))
		if r.subs[n] != nil {
			if code(err) != codes.AlreadyExists {
				return viol("C12", "status", "CreateSubscription of live %s: %v", n, err)
			}
			return nil
		}
		if _, live := r.topics[tn]; !live {
			if code(err) != codes.NotFound {
				return viol("C12", "status", "CreateSubscription on missing topic: %v", err)
			}
			return nil
		}
		if err != nil {
			if p, ok := isPanic(err); ok {
				return viol("C16", "panic:CreateSubscription", "%v", p.Val)
			}
			return viol("C17", "create_rejected", "CreateSubscription with an accepted configuration was rejected: %v (%v)", err, req)
		}
		r.subs[n] = &c
		if v := r.checkSub("Create response", n, resp.(*pubsubpb.Subscription)); v != nil {
			return v
		}
	case 3: // update subscription with a mask subset
		n := cfgSubN(t.Intn(4))
		cur := r.subs[n]
		base := cfgSub{}
		if cur != nil {
			base = *cur
		}
		req := &pubsubpb.Subscription{Name: n}
		want := r.fill(req, base)
		var paths []string
		bits := t.Intn(1 << len(cfgPaths))
		if t.Bool(50) {
			bits = 1 << t.Intn(len(cfgPaths))
		}
		for i, p := range cfgPaths {
			if bits&(1<<i) != 0 {
				paths = append(paths, p)
			}
		}
		// tape-chosen order of the paths
		for i := len(paths) - 1; i > 0; i-- {
			j := t.Intn(i + 1)
			paths[i], paths[j] = paths[j], paths[i]
		}
		resp, err := r.call("UpdateSubscription", &pubsubpb.UpdateSubscriptionRequest{Subscription: req, UpdateMask: &fieldmaskpb.FieldMask{Paths: paths}})
		r.ev("UpdateSubscription %s mask=%v %v -> %v", n, paths, strings.ReplaceAll(fmt.Sprint(req), "\n", " "), code(err))
		if cur == nil {
			if code(err) != codes.NotFound {
				return viol("C12", "status", "UpdateSubscription of missing %s: %v", n, err)
			}
			return nil
		}
		if err != nil {
			if p, ok := isPanic(err); ok {
				return viol("C16", "panic:UpdateSubscription", "%v", p.Val)
			}
			return viol("C17", "update_rejected", "UpdateSubscription %s mask=%v rejected: %v", n, paths, err)
		}
		next := *cur
		for _, p := range paths {
			switch p {
			case "labels":
				next.labels = want.labels
			case "expiration_policy":
				next.ttl = want.ttl
			case "message_retention_duration":
				next.retention = want.retention
			case "retry_policy":
				next.minB, next.maxB = want.minB, want.maxB
			case "push_config":
				next.push = want.push
			case "filter":
				next.filter = want.filter
			case "dead_letter_policy":
				next.dlTopic, next.dlN, next.dlGen = want.dlTopic, want.dlN, want.dlGen
			case "enable_message_ordering":
				next.ordered = want.ordered
			}
		}
		r.subs[n] = &next
		r.stats[fmt.Sprintf("mask_size_%d", len(paths))]++
		if resp != nil && len(paths) > 0 {
			if g := resp.(*pubsubpb.Subscription); g.GetName() != "" {
				if v := r.checkSub("Update response", n, g); v != nil {
					return v
				}
			}
		}
	case 4: // delete subscription
		n := cfgSubN(t.Intn(4))
		_, err := r.call("DeleteSubscription", &pubsubpb.DeleteSubscriptionRequest{Subscription: n})
		r.ev("DeleteSubscription %s -> %v", n, code(err))
		if r.subs[n] == nil {
			if code(err) != codes.NotFound {
				return viol("C12", "status", "DeleteSubscription of missing %s: %v", n, err)
			}
			return nil
		}
		if err != nil {
			return viol("C12", "status", "DeleteSubscription %s: %v", n, err)
		}
		delete(r.subs, n)
	case 5: // modify push config
		n := cfgSubN(t.Intn(4))
		ep := ""
		pc := &pubsubpb.PushConfig{}
		if t.Bool(60) {
			ep = fmt.Sprintf("http://push.invalid/m%d", t.Intn(3))
			pc.PushEndpoint = ep
		}
		_, err := r.call("ModifyPushConfig", &pubsubpb.ModifyPushConfigRequest{Subscription: n, PushConfig: pc})
		r.ev("ModifyPushConfig %s %q -> %v", n, ep, code(err))
		if r.subs[n] == nil {
			if code(err) != codes.NotFound {
				return viol("C12", "status", "ModifyPushConfig of missing %s: %v", n, err)
			}
			return nil
		}
		if err != nil {
			return viol("C17", "update_rejected", "ModifyPushConfig %s: %v", n, err)
		}
		r.subs[n].push = ep
	case 6:
		r.ev("restart")
		if err := r.w.Restart(); err != nil {
			panic("HARNESS: restart: " + err.Error())
		}
		r.stats["crash_restart"]++
	}
	return r.verifyAll("after step")
}

func runConfig(t *testing.T, tape *Tape, w *World, variant string, steps int, out *runOutcome) {
	r := &cfgRun{t: tape, w: w, stats: map[string]int{}, topics: map[string]map[string]string{}, gen: map[string]int{}, subs: map[string]*cfgSub{}, hashes: map[uint64]bool{}}
	tape.Frame()
	S.tick = time.Microsecond
	for i := 0; i < steps; i++ {
		if tape.Exhausted() {
			break
		}
		if v := r.step(); v != nil {
			out.v = v
			break
		}
		h := uint64(1469598103934665603)
		var names []string
		for n := range r.subs {
			names = append(names, n)
		}
		sort.Strings(names)
		for _, n := range names {
			c := r.subs[n]
			for _, ch := range fmt.Sprint(n, len(c.labels), c.retention, c.ttl, c.ordered, c.filter, c.minB, c.maxB, c.dlTopic, c.dlN, c.push) {
				h = (h ^ uint64(ch)) * 1099511628211
			}
		}
		r.hashes[h] = true
	}
	out.trace, out.stats, out.hashes = r.trace, r.stats, r.hashes
	out.header = 1
	out.sample = sampleOf(r.trace)
}

func init() { engines["config"] = runConfig }
