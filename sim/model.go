package sim

// Reference model of Pub/Sub semantics as the properties word them (DESIGN.md section 4).
// It never looks at the database. Every time attribute is an interval [lo,hi]; eps is the
// boundary zone inside which nothing is asserted.

import (
	"bytes"
	"encoding/json"
	"fmt"
	"math"
	"math/big"
	"sort"
	"strings"
	"time"
)

const eps = 10 * time.Millisecond

var farFuture = time.Date(3000, 1, 1, 0, 0, 0, 0, time.UTC)

type Violation struct {
	Prop   string `json:"property"`
	Oracle string `json:"oracle"`
	Msg    string `json:"msg"`
}

func (v *Violation) Error() string { return fmt.Sprintf("%s/%s: %s", v.Prop, v.Oracle, v.Msg) }

func viol(prop, oracle, f string, a ...any) *Violation {
	return &Violation{Prop: prop, Oracle: oracle, Msg: fmt.Sprintf(f, a...)}
}

type MTopic struct {
	Name   string
	Gen    int
	Live   bool
	Labels map[string]string
}

type SubCfg struct {
	Filter      string
	Ordered     bool
	MinB, MaxB  time.Duration // 0 = absent
	DLTopic     *MTopic       // generation configured (may be dead)
	MaxAttempts int32
	Retention   time.Duration
	TTL         time.Duration
	Delay       time.Duration
	Push        string
	Labels      map[string]string
}

type MSub struct {
	Name           string
	Gen            int
	Topic          *MTopic
	Live           bool
	Cfg            SubCfg
	OrderedToggled bool
	ActLo, ActHi   time.Time // last known pull/creation activity interval
	EDs            []*ED
	everSeeked     bool
	attached       bool // a streaming client or pusher is attached: activity unobservable
}

type MMsg struct {
	ID       string
	Topic    *MTopic
	Data     []byte
	Attrs    map[string]string
	Key      string
	T0, T1   time.Time // publish op interval
	Seq      int
	PubTime  time.Time // exact, once a delivery reported it
	Exact    bool
	Unstable bool // payload may be altered in a known-ambiguous way (never set today)
}

const (
	stOut = iota
	stAcked
	stDL
	stGone
)

type ED struct {
	Sub    *MSub
	Msg    *MMsg
	Origin *ED // source delivery for dead-letter forwards; nil for publishes
	// published_at of the delivery row
	CreLo, CreHi  time.Time
	State         int
	AckID         string
	Seen          int // deliveries observed
	SeenUnc       int // possible extra unobserved deliveries
	LeaseLo       time.Time
	LeaseHi       time.Time
	RetLo, RetHi  time.Time
	Fuzzy         bool // state / existence unknown: may be delivered, never required
	DLMaybe       bool // may already have been dead-lettered
	Cause         string
	SettledLo     time.Time // when it became acked/DL (lower bound)
	Fwd           []*ED
	ForwardCount  int // definite forwards seen since last revive (C06)
	BySeek        bool
	MaybePruned   bool // its completed row may have been pruned (sticky through later seeks)
	SnapCopy      bool // acknowledged dead-letter copy that a seek to its own subscription's snapshot may re-open (known finding)
	SnapPruned    bool // settled by a seek to a snapshot whose view of this message may have lost a pruned ack
	GuessBound    bool // its ack id was bound by a guess among equally plausible candidates
	MaybeTaken    bool // optional copy that lost such a guess: the row seen may really have been this one
	LateCopy      bool // optional dead-letter copy for a target that appeared after the move may already have happened
	MaybeCopy     bool // bound by a guess among copies of one message, one of them dead-letter forwarded
	Grace         bool // acknowledged, but the server may not have committed it yet (stalled-server push runs)
	Round         int  // incremented whenever a seek (possibly) re-opened this delivery: a new dead-letter round
	FwdRound      int  // forwarded copies: the source round that produced it
	everDelivered bool
}

type MSnap struct {
	Name   string
	Sub    *MSub
	Topic  *MTopic
	T0, T1 time.Time
	InU    map[*MMsg]int // by message (publish deliveries only): 1 = unacked at snapshot, 0 = acked, 2 = unknown
	ByED   map[*ED]int   // by delivery of the snapshot's own subscription
	// acknowledged on the snapshot's subscription, but the completed row may have been pruned
	// before the snapshot was taken (known finding C13/restored_pruned_ack)
	PrunedAck map[*MMsg]bool
	Labels    map[string]string
}

type pruneRun struct {
	at     time.Time
	minAge time.Duration
}

type Model struct {
	Topics    map[string]*MTopic // live or last generation by name
	Subs      map[string]*MSub
	Snaps     map[string]*MSnap
	Msgs      map[string]*MMsg
	AckIDs    map[string]*ED
	AllSubs   []*MSub
	genCtr    int
	msgSeq    int
	pruneRuns []pruneRun
	Probes    map[string]int
	stateHash uint64
	// known findings (from /verif/known-findings.json): signatures "Cxx/oracle" that are
	// recorded instead of reported, at sites where the run can soundly continue
	KnownSigs map[string]bool
	KnownHits map[string]string
	// Concurrent: operations overlap; pull responses are processed in return order, so the
	// completeness half and the dead-letter inference of Pull are switched off (safety only)
	Concurrent bool
}

// knownOr downgrades a violation whose signature is listed as a known finding.
func (m *Model) knownOr(v *Violation) *Violation {
	if v != nil && m.KnownSigs[v.Prop+"/"+v.Oracle] {
		if m.KnownHits == nil {
			m.KnownHits = map[string]string{}
		}
		if _, ok := m.KnownHits[v.Prop+"/"+v.Oracle]; !ok {
			m.KnownHits[v.Prop+"/"+v.Oracle] = v.Msg
		}
		return nil
	}
	return v
}

func NewModel() *Model {
	return &Model{Topics: map[string]*MTopic{}, Subs: map[string]*MSub{}, Snaps: map[string]*MSnap{}, Msgs: map[string]*MMsg{}, AckIDs: map[string]*ED{}, Probes: map[string]int{}}
}

func (m *Model) probe(k string) { m.Probes[k]++ }

// ---- filter palette with an independent matcher ------------------------------------------

type filterSpec struct {
	Text  string
	Match func(a map[string]string) bool
}

func has(a map[string]string, k string) bool { _, ok := a[k]; return ok }

var filterPalette = []filterSpec{
	{"", func(a map[string]string) bool { return true }},
	{`attributes:kind`, func(a map[string]string) bool { return has(a, "kind") }},
	{`attributes.kind = "a"`, func(a map[string]string) bool { return has(a, "kind") && a["kind"] == "a" }},
	{`hasPrefix(attributes.kind, "a")`, func(a map[string]string) bool { return has(a, "kind") && strings.HasPrefix(a["kind"], "a") }},
	{`NOT attributes:kind`, func(a map[string]string) bool { return !has(a, "kind") }},
	{`attributes:kind AND attributes.x = "1"`, func(a map[string]string) bool { return has(a, "kind") && has(a, "x") && a["x"] == "1" }},
	{`attributes.kind = "a" OR attributes.kind = "b"`, func(a map[string]string) bool {
		return has(a, "kind") && (a["kind"] == "a" || a["kind"] == "b")
	}},
	{`-attributes:x`, func(a map[string]string) bool { return !has(a, "x") }},
}

func filterMatches(text string, a map[string]string) bool {
	for _, f := range filterPalette {
		if f.Text == text {
			return f.Match(a)
		}
	}
	panic("HARNESS: filter not in palette: " + text)
}

// ---- backoff per the property text -------------------------------------------------------

func nominalBackoff(c *SubCfg, n int) time.Duration {
	min, max := 10*time.Second, 10*time.Minute
	if c.MinB > 0 {
		min = c.MinB
	}
	if c.MaxB > 0 {
		max = c.MaxB
	}
	d := math.Pow(1.1, float64(n)) * min.Seconds()
	if d > max.Seconds() {
		d = max.Seconds()
	}
	return time.Duration(d * float64(time.Second))
}

func (c *SubCfg) fullDL() bool { return c.DLTopic != nil && c.MaxAttempts > 0 }

// strictDL: the policy is in force and its dead-letter topic still exists. With the topic
// deleted the text says nothing (the policy may be void, or retire deliveries into nowhere):
// everything about dead-lettering is then "may", nothing is "must".
func (c *SubCfg) strictDL() bool { return c.fullDL() && c.DLTopic.Live }

// ---- resources ----------------------------------------------------------------------------

func (m *Model) CreateTopic(name string, labels map[string]string) *MTopic {
	m.genCtr++
	t := &MTopic{Name: name, Gen: m.genCtr, Live: true, Labels: labels}
	m.Topics[name] = t
	return t
}

func (m *Model) LiveTopic(name string) *MTopic {
	if t := m.Topics[name]; t != nil && t.Live {
		return t
	}
	return nil
}

func (m *Model) LiveSub(name string) *MSub {
	if s := m.Subs[name]; s != nil && s.Live {
		return s
	}
	return nil
}

func (m *Model) DeleteTopic(t *MTopic) {
	t.Live = false
	for n, sn := range m.Snaps {
		if sn.Topic == t {
			delete(m.Snaps, n)
		}
	}
}

func (m *Model) CreateSub(name string, t *MTopic, cfg SubCfg, t0, t1 time.Time) *MSub {
	m.genCtr++
	s := &MSub{Name: name, Gen: m.genCtr, Topic: t, Live: true, Cfg: cfg, ActLo: t0, ActHi: t1}
	m.Subs[name] = s
	m.AllSubs = append(m.AllSubs, s)
	return s
}

func (m *Model) DeleteSub(s *MSub) {
	s.Live = false
	for _, e := range s.EDs {
		e.State = stGone
	}
}

func (m *Model) subsOfTopic(t *MTopic) []*MSub {
	var out []*MSub
	for _, s := range m.AllSubs {
		if s.Live && s.Topic == t {
			out = append(out, s)
		}
	}
	return out
}

// ---- publish ------------------------------------------------------------------------------

func (m *Model) Publish(t *MTopic, id string, data []byte, attrs map[string]string, key string, t0, t1 time.Time) *MMsg {
	m.msgSeq++
	msg := &MMsg{ID: id, Topic: t, Data: data, Attrs: attrs, Key: key, T0: t0, T1: t1, Seq: m.msgSeq}
	m.Msgs[id] = msg
	for _, s := range m.subsOfTopic(t) {
		if filterMatches(s.Cfg.Filter, attrs) {
			m.newED(s, msg, nil, t0, t1, "new")
		}
	}
	return msg
}

func (m *Model) newED(s *MSub, msg *MMsg, origin *ED, t0, t1 time.Time, cause string) *ED {
	e := &ED{Sub: s, Msg: msg, Origin: origin, CreLo: t0, CreHi: t1, State: stOut, Cause: cause,
		LeaseLo: t0.Add(s.Cfg.Delay), LeaseHi: t1.Add(s.Cfg.Delay),
		RetLo: t0.Add(s.Cfg.Retention), RetHi: t1.Add(s.Cfg.Retention)}
	s.EDs = append(s.EDs, e)
	return e
}

// ---- helpers on EDs -----------------------------------------------------------------------

func (e *ED) mayAlive(t0 time.Time) bool  { return t0.Before(e.RetHi.Add(eps)) }
func (e *ED) mustAlive(t1 time.Time) bool { return t1.Before(e.RetLo.Add(-eps)) }
func (e *ED) mayDue(t1 time.Time) bool    { return !t1.Before(e.LeaseLo.Add(-eps)) }
func (e *ED) mustDue(t0 time.Time) bool   { return !t0.Before(e.LeaseHi.Add(eps)) }

// settledFor: definitely no longer outstanding at t0 (acked, dead-lettered, gone or expired)
func (e *ED) definitelySettled(t0 time.Time) bool {
	if e.Fuzzy {
		return false
	}
	if e.State != stOut {
		return true
	}
	return t0.After(e.RetHi.Add(eps))
}

// possiblySettled: may be no longer outstanding at t1
func (e *ED) possiblySettled(t1 time.Time) bool {
	if e.Fuzzy || e.DLMaybe || e.State != stOut {
		return true
	}
	if c := &e.Sub.Cfg; c.fullDL() && e.Seen+e.SeenUnc >= int(c.MaxAttempts) && e.mayDue(t1) {
		// due for dead-lettering: a fetch the model did not see (streamer, pusher) may have
		// retired it already
		return true
	}
	return !t1.Before(e.RetLo.Add(-eps))
}

func (e *ED) String() string {
	st := [...]string{"out", "acked", "dl", "gone"}[e.State]
	return fmt.Sprintf("ED{sub=%s#%d msg=%d key=%q %s seen=%d+%d fuzzy=%v dlmaybe=%v cause=%s}", e.Sub.Name, e.Sub.Gen, e.Msg.Seq, e.Msg.Key, st, e.Seen, e.SeenUnc, e.Fuzzy, e.DLMaybe, e.Cause)
}

// ---- content comparison --------------------------------------------------------------------

func jsonEqual(a, b []byte) bool {
	var va, vb any
	da := json.NewDecoder(bytes.NewReader(a))
	da.UseNumber()
	db := json.NewDecoder(bytes.NewReader(b))
	db.UseNumber()
	if err := da.Decode(&va); err != nil {
		return false
	}
	if err := db.Decode(&vb); err != nil {
		return false
	}
	return valEqual(va, vb)
}

func valEqual(a, b any) bool {
	switch x := a.(type) {
	case json.Number:
		y, ok := b.(json.Number)
		if !ok {
			return false
		}
		if x == y {
			return true
		}
		rx, ok1 := new(big.Rat).SetString(string(x))
		ry, ok2 := new(big.Rat).SetString(string(y))
		return ok1 && ok2 && rx.Cmp(ry) == 0
	case map[string]any:
		y, ok := b.(map[string]any)
		if !ok || len(x) != len(y) {
			return false
		}
		for k, v := range x {
			w, ok := y[k]
			if !ok || !valEqual(v, w) {
				return false
			}
		}
		return true
	case []any:
		y, ok := b.([]any)
		if !ok || len(x) != len(y) {
			return false
		}
		for i := range x {
			if !valEqual(x[i], y[i]) {
				return false
			}
		}
		return true
	default:
		return a == b
	}
}

func attrsEqual(a, b map[string]string) bool {
	if len(a) != len(b) {
		return false
	}
	for k, v := range a {
		if w, ok := b[k]; !ok || w != v {
			return false
		}
	}
	return true
}

// ---- pull ----------------------------------------------------------------------------------

type RecvMsg struct {
	AckID   string
	MsgID   string
	Data    []byte
	Attrs   map[string]string
	Key     string
	Attempt int
	PubTime time.Time
}

func causeProp(e *ED) string {
	if e.BySeek {
		return "C13"
	}
	switch e.Cause {
	case "lease", "modack0":
		return "C04"
	case "seek":
		return "C13"
	case "dlforward":
		return "C06"
	}
	return "C01"
}

// Pull checks a successful pull response against the model and updates it.
// stream=true relaxes nothing today; max is the request's max_messages.
func (m *Model) Pull(s *MSub, max int, resp []RecvMsg, t0, t1 time.Time) *Violation {
	cfg := &s.Cfg
	if len(resp) > max {
		return viol("C02", "max_messages", "pull on %s returned %d > max %d", s.Name, len(resp), max)
	}
	seen := map[*ED]bool{}
	ackSeen := map[string]bool{}
	var delivered []*ED
	for _, r := range resp {
		if ackSeen[r.AckID] {
			return viol("C02", "dup_in_response", "ack id %s twice in one response on %s", r.AckID, s.Name)
		}
		ackSeen[r.AckID] = true
		var e *ED
		if x, ok := m.AckIDs[r.AckID]; ok {
			e = x
			if e.Sub != s {
				return viol("C02", "foreign_delivery", "pull on %s returned ack id of %s", s.Name, e.Sub.Name)
			}
			if e.Msg.ID != r.MsgID {
				return viol("C02", "ackid_msg_mismatch", "ack id %s now carries message %s, was %s", r.AckID, r.MsgID, e.Msg.ID)
			}
		} else {
			msg := m.Msgs[r.MsgID]
			if msg == nil {
				return viol("C02", "unknown_message", "pull on %s returned unknown message id %s", s.Name, r.MsgID)
			}
			// find an unbound expected delivery for (s,msg)
			best := -1
			var ties, plausible []*ED
			for _, x := range s.EDs {
				if x.Msg == msg && x.AckID == "" && !seen[x] && x.State != stGone {
					// prefer a definite, eligible expectation over an optional (fuzzy) one so
					// that an optional copy can never steal the match of a required one
					score := 0
					if x.State == stOut || x.Fuzzy {
						score = 1
						if x.mayAlive(t0) && x.mayDue(t1) {
							score = 2
							if !x.Fuzzy && x.mustAlive(t1) && x.mustDue(t0) {
								// definitely eligible (required); a delivery in the boundary
								// zone of its lease or retention is as optional as a fuzzy one
								score = 4
							}
						}
					}
					if score >= 2 {
						plausible = append(plausible, x)
					}
					if score > best {
						best, e = score, x
					}
				}
			}
			// every other plausible candidate is a tie: which of several rows of one message
			// an unknown ack id belongs to cannot be told from the response, whatever the
			// scores (they only decide which expectation is consumed first)
			ties = ties[:0]
			if best >= 2 {
				for _, x := range plausible {
					if x != e {
						ties = append(ties, x)
					}
				}
			}
			// several equally plausible expectations for one unknown ack id (copies of one
			// message on one subscription, e.g. a dead-letter cycle): the binding is a guess,
			// so the ones not chosen are no longer required (they may be the real match)
			maybeCopy := false
			if e != nil && len(ties) > 0 {
				e.GuessBound = true
			}
			for _, x := range ties {
				x.Fuzzy = true
				x.MaybeTaken = true
				m.probe("ambiguous_binding")
				if x.Origin != nil {
					maybeCopy = true
				}
			}
			if e != nil && len(ties) > 0 {
				// the guess may be the wrong way round: make the candidates interchangeable in
				// everything that is checked by time or count
				grp := append([]*ED{e}, ties...)
				u := *e
				hi := e.Seen + e.SeenUnc
				for _, x := range ties {
					if x.RetLo.Before(u.RetLo) {
						u.RetLo = x.RetLo
					}
					if x.RetHi.After(u.RetHi) {
						u.RetHi = x.RetHi
					}
					if x.LeaseLo.Before(u.LeaseLo) {
						u.LeaseLo = x.LeaseLo
					}
					if x.LeaseHi.After(u.LeaseHi) {
						u.LeaseHi = x.LeaseHi
					}
					if x.CreLo.Before(u.CreLo) {
						u.CreLo = x.CreLo
					}
					if x.CreHi.After(u.CreHi) {
						u.CreHi = x.CreHi
					}
					if x.Seen < u.Seen {
						u.Seen = x.Seen
					}
					if x.Seen+x.SeenUnc > hi {
						hi = x.Seen + x.SeenUnc
					}
				}
				for _, x := range grp {
					x.RetLo, x.RetHi, x.LeaseLo, x.LeaseHi = u.RetLo, u.RetHi, u.LeaseLo, u.LeaseHi
					x.CreLo, x.CreHi = u.CreLo, u.CreHi
					x.Seen, x.SeenUnc = u.Seen, hi-u.Seen
				}
			}
			if e != nil && len(ties) > 0 && (maybeCopy || e.Origin != nil) {
				// the row delivered may really be a dead-letter copy (or the original): the
				// ordering oracle, which exempts forwarded copies, must exempt the guess too
				e.MaybeCopy = true
				for _, x := range ties {
					x.MaybeCopy = true
				}
			}
			if e == nil {
				// is it a second ack id for an already-bound delivery? (forwarded twice / duplicate row)
				for _, x := range s.EDs {
					if x.Msg == msg {
						if x.Origin != nil {
							return viol("C06", "forwarded_twice", "second delivery row (ack id %s) for dead-lettered message %d on %s", r.AckID, msg.Seq, s.Name)
						}
						return viol("C02", "duplicate_delivery_row", "second delivery row (ack id %s) for message %d on %s", r.AckID, msg.Seq, s.Name)
					}
				}
				if msg.Topic != s.Topic {
					return viol("C02", "wrong_topic", "message %d of topic %s delivered on %s (topic %s), no dead-letter route", msg.Seq, msg.Topic.Name, s.Name, s.Topic.Name)
				}
				if !filterMatches(cfg.Filter, msg.Attrs) {
					return viol("C02", "filter_violated", "message %d (attrs %v) delivered on %s despite filter %q", msg.Seq, msg.Attrs, s.Name, cfg.Filter)
				}
				return viol("C02", "unexpected_delivery", "message %d delivered on %s but was not published while it was attached", msg.Seq, s.Name)
			}
			e.AckID = r.AckID
			m.AckIDs[r.AckID] = e
		}
		if seen[e] {
			return viol("C02", "dup_in_response", "delivery of message %d twice in one response on %s", e.Msg.Seq, s.Name)
		}
		seen[e] = true
		// retention first: a delivery past its retention is a C14 matter whatever its state
		if !e.mayAlive(t0) && e.State != stGone {
			return viol("C14", "delivered_after_retention", "%v delivered at %v, retention ended by %v%s", e, t0.Sub(epoch), e.RetHi.Sub(epoch), m.describe(e))
		}
		// state
		if e.SnapPruned && e.Fuzzy {
			// known finding: the snapshot is computed from delivery rows, and the row of a
			// message acknowledged after the oldest unacknowledged one may have been pruned
			// already; seeking a sibling subscription to that snapshot then restores a
			// message that was acknowledged when the snapshot was taken
			if v := m.knownOr(viol("C13", "restored_pruned_ack", "%v delivered after a seek to a snapshot in which message %d was acknowledged (its completed row had been pruned before the snapshot was taken)", e, e.Msg.Seq)); v != nil {
				return v
			}
			e.SnapPruned = false
		}
		if e.SnapCopy && e.Fuzzy {
			if v := m.knownOr(viol("C13", "restored_acked_dead_letter_copy", "%v, an acknowledged dead-letter forwarded copy, delivered again after a seek of its subscription to a snapshot taken after the acknowledgement", e)); v != nil {
				return v
			}
			e.SnapCopy = false
		}
		if !e.Fuzzy && !(e.State == stAcked && e.Grace) {
			switch e.State {
			case stAcked:
				if e.SnapPruned {
					// known finding: the snapshot is computed from delivery rows, and the row
					// of a message acknowledged after the oldest unacknowledged one may have
					// been pruned already; seeking a sibling subscription to that snapshot then
					// restores a message that was acknowledged when the snapshot was taken
					if v := m.knownOr(viol("C13", "restored_pruned_ack", "%v delivered after a seek to a snapshot in which message %d was acknowledged (its completed row had been pruned before the snapshot was taken)", e, e.Msg.Seq)); v != nil {
						return v
					}
					// carry on as if that seek had revived it (lease and retention restarted)
					e.State, e.SnapPruned = stOut, false
					e.LeaseLo = epoch
					if x := t1.Add(cfg.Retention); x.After(e.RetHi) {
						e.RetHi = x
					}
					break
				}
				p := "C03"
				if e.BySeek {
					p = "C13"
				}
				return viol(p, "delivered_after_ack", "%v delivered again after acknowledgement", e)
			case stDL:
				return viol("C06", "delivered_after_deadletter", "%v delivered on source after it was dead-lettered", e)
			case stGone:
				return viol("C12", "delivered_from_deleted_sub", "%v delivered though subscription generation is gone", e)
			}
		}
		if !e.mayAlive(t0) {
			return viol("C14", "delivered_after_retention", "%v delivered at %v, retention ended by %v%s", e, t0.Sub(epoch), e.RetHi.Sub(epoch), m.describe(e))
		}
		if !e.mayDue(t1) {
			p := "C04"
			if e.Seen == 0 && e.Cause != "seek" {
				p = "C14" // delivery delay
			}
			return viol(p, "delivered_before_deadline", "%v delivered at %v, not due before %v (lease/delay)", e, t1.Sub(epoch), e.LeaseLo.Sub(epoch))
		}
		// content
		if e.Msg.ID != r.MsgID {
			return viol("C02", "message_id", "message id %s != published %s", r.MsgID, e.Msg.ID)
		}
		if !jsonEqual(e.Msg.Data, r.Data) {
			return viol("C02", "payload", "payload %q != published %q (message %d)", r.Data, e.Msg.Data, e.Msg.Seq)
		}
		if !attrsEqual(e.Msg.Attrs, r.Attrs) {
			return viol("C02", "attributes", "attributes %v != published %v (message %d)", r.Attrs, e.Msg.Attrs, e.Msg.Seq)
		}
		if e.Msg.Key != r.Key {
			return viol("C02", "ordering_key", "ordering key %q != published %q", r.Key, e.Msg.Key)
		}
		if e.Origin == nil && (r.PubTime.Before(e.Msg.T0.Add(-eps)) || r.PubTime.After(e.Msg.T1.Add(eps))) {
			return viol("C02", "publish_time", "publish time %v outside publish interval of message %d", r.PubTime, e.Msg.Seq)
		}
		if !r.PubTime.IsZero() && !e.Msg.Exact {
			if !e.Msg.PubTime.IsZero() && !e.Msg.PubTime.Equal(r.PubTime) {
				return viol("C02", "publish_time_unstable", "message %d reported with publish time %v, earlier %v", e.Msg.Seq, r.PubTime, e.Msg.PubTime)
			}
			// the publish time is now known exactly: deliveries created by the publish carry it
			e.Msg.PubTime, e.Msg.Exact = r.PubTime, true
			for _, s2 := range m.AllSubs {
				for _, x := range s2.EDs {
					if x.Msg == e.Msg && x.Origin == nil && !x.CreLo.After(r.PubTime) && !x.CreHi.Before(r.PubTime) {
						x.CreLo, x.CreHi = r.PubTime, r.PubTime
					}
				}
			}
		}
		// attempt number
		if r.Attempt < e.Seen+1 || r.Attempt > e.Seen+e.SeenUnc+1 {
			return viol("C04", "delivery_attempt", "%v delivered with delivery_attempt=%d, expected %d", e, r.Attempt, e.Seen+1)
		}
		// dead-letter bound
		if cfg.strictDL() && !e.Fuzzy && e.Seen >= int(cfg.MaxAttempts) {
			return viol("C06", "too_many_attempts", "%v delivered as attempt %d with max_delivery_attempts=%d", e, r.Attempt, cfg.MaxAttempts)
		}
		delivered = append(delivered, e)
	}
	// C05 ordering oracle (independent of may/must)
	if cfg.Ordered && !s.OrderedToggled {
		for _, e := range delivered {
			if e.Msg.Key == "" {
				continue
			}
			for _, p := range s.EDs {
				if p == e || p.Msg.Key != e.Msg.Key || p.State == stGone {
					continue
				}
				// "earlier": published earlier and, where a dead-letter forwarded copy is
				// involved (enqueued when it is forwarded), not enqueued on this
				// subscription later than the other
				copyInvolved := e.Origin != nil || e.MaybeCopy || p.Origin != nil || p.MaybeCopy
				earlier := p.Msg.Seq < e.Msg.Seq
				if copyInvolved && p.CreLo.After(e.CreHi) {
					// published earlier but enqueued here later (or the other way round): the
					// text defines no order between the two
					earlier = false
				}
				if !earlier || p.Msg == e.Msg {
					continue
				}
				// the known mechanism is a TIE: several same-key copies forwarded by one
				// dead-lettering step (same published_at). It applies when e and p are such
				// siblings, or when p has such a sibling (e's link may point at the sibling).
				// A copy forwarded on its own has an unambiguous place in the chain.
				tie := false
				if copyInvolved {
					overlap := func(a, b *ED) bool { return !a.CreLo.After(b.CreHi) && !b.CreLo.After(a.CreHi) }
					isCopy := func(x *ED) bool { return x.Origin != nil || x.MaybeCopy }
					if isCopy(e) && isCopy(p) && overlap(e, p) {
						tie = true
					}
					for _, y := range s.EDs {
						if y != p && y != e && y.Msg.Key == e.Msg.Key && y.State != stGone && isCopy(y) && isCopy(p) && overlap(y, p) {
							tie = true
						}
					}
				}
				// second known mechanism: the predecessor lookup only considers deliveries whose
				// MESSAGE belongs to the same topic as the new one (actions/delivery-utils.go,
				// "not necessary? maybe helps with indexes?"), so a forwarded copy is never chained
				// behind messages of the dead-letter topic itself or copies from another topic
				if copyInvolved && e.Msg.Topic != p.Msg.Topic {
					tie = true
				}
				if copyInvolved && tie && (!p.possiblySettled(t1) || seen[p]) {
					// known finding: predecessor links are chosen by published_at, which is one
					// and the same instant for every copy forwarded by one dead-lettering step,
					// so the link of a copy (or of a message published after them) may point at
					// any of them; "dead-lettering is not fully supported in that case" (code)
					if v := m.knownOr(viol("C05", "overtaken_dead_letter_copy", "message %d (key %q) delivered on %s while message %d with the same key, published earlier and enqueued here no later, is outstanding (%v); at least one of the two is a dead-letter forwarded copy", e.Msg.Seq, e.Msg.Key, s.Name, p.Msg.Seq, p)); v != nil {
						return v
					}
					continue
				}
				if !p.possiblySettled(t1) || seen[p] {
					// classify: "overtaken" = the immediate same-key predecessor of e is the
					// outstanding one (the link itself failed); "overtaken_chain_broken" = the
					// immediate predecessor is settled (acked / expired / dead-lettered) while an
					// even earlier same-key message is outstanding: the implementation keeps one
					// link per delivery and relies on transitivity, which seeks, stale acks after
					// a seek and unequal retention break (known finding, DESIGN.md section 7)
					oracle := "overtaken"
					// (the link is chosen among all same-key deliveries of the subscription,
					// dead-letter copies included, by creation time)
					// The link of e points at the latest same-key delivery of the subscription
					// that existed when e was created (dead-letter copies included). If any
					// same-key delivery possibly created between p and e is possibly settled,
					// e's link may point at it and the chain to p is broken.
					for _, x := range s.EDs {
						if x == e || x == p || x.Msg.Key != e.Msg.Key || x.State == stGone || seen[x] {
							continue
						}
						between := false
						if x.Origin == nil && e.Origin == nil && p.Origin == nil && !x.MaybeCopy {
							between = x.Msg.Seq > p.Msg.Seq && x.Msg.Seq < e.Msg.Seq // publish order is exact
						} else {
							between = !x.CreHi.Before(p.CreLo) && !x.CreLo.After(e.CreHi)
						}
						if between && x.possiblySettled(t1) {
							oracle = "overtaken_chain_broken"
							break
						}
					}
					if v := m.knownOr(viol("C05", oracle, "message %d (key %q) delivered on %s while earlier message %d with the same key is outstanding (%v)%s%s", e.Msg.Seq, e.Msg.Key, s.Name, p.Msg.Seq, p, m.describe(p), m.describe(e))); v != nil {
						return v
					}
				}
			}
		}
	}
	// completeness
	var mustDeliver, mustDL, mayDL []*ED
	mayCount := 0
	for _, e := range s.EDs {
		if e.State == stGone {
			continue
		}
		if (e.State == stOut || e.Fuzzy) && e.mayAlive(t0) && e.mayDue(t1) {
			mayCount++
			if cfg.fullDL() && e.Seen+e.SeenUnc >= int(cfg.MaxAttempts) {
				mayDL = append(mayDL, e)
			}
		}
		if e.State != stOut || e.Fuzzy {
			continue
		}
		if !e.mustAlive(t1) || !e.mustDue(t0) {
			continue
		}
		if e.DLMaybe {
			// may already be dead-lettered; if it is definitely due for it now, an
			// untruncated pull settles the question (it is dead-lettered by now)
			if cfg.strictDL() && e.Seen >= int(cfg.MaxAttempts) && !(cfg.Ordered && e.Msg.Key != "") {
				mustDL = append(mustDL, e)
			}
			continue
		}
		if cfg.Ordered && !s.OrderedToggled && e.Msg.Key != "" {
			if m.orderBlocked(e, t0) {
				m.probe("ordered_blocked_by_predecessor")
				continue
			}
		} else if cfg.Ordered || s.OrderedToggled {
			if e.Msg.Key != "" {
				continue // toggled ordering: no completeness claim for keyed messages
			}
		}
		if cfg.fullDL() && e.Seen+e.SeenUnc >= int(cfg.MaxAttempts) {
			if e.Seen >= int(cfg.MaxAttempts) && cfg.strictDL() {
				mustDL = append(mustDL, e)
			}
			continue
		}
		if e.GuessBound || e.MaybeTaken {
			// which row this expectation stands for was a guess: what blocks it (ordering),
			// what revives it (seeks by creation time) is that of the other candidate as
			// likely as its own. Safety is still checked (on the union), completeness not.
			continue
		}
		mustDeliver = append(mustDeliver, e)
	}
	limitBound := len(resp)+len(mayDL) >= max || m.Concurrent
	if limitBound && !m.Concurrent {
		m.probe("pull_truncated")
	}
	if !limitBound {
		for _, e := range mustDeliver {
			if !seen[e] {
				return viol(causeProp(e), "not_offered", "%v is outstanding, due since %v, retention until %v, but pull(max=%d) on %s at %v returned %d messages without it%s", e, e.LeaseHi.Sub(epoch), e.RetLo.Sub(epoch), max, s.Name, t0.Sub(epoch), len(resp), m.describe(e))
			}
		}
	}
	// update delivered
	for _, e := range delivered {
		if e.State == stAcked && e.Grace {
			e.Seen++
			continue
		}
		if e.Fuzzy {
			e.Fuzzy = false
			e.State = stOut
			if e.CreHi.After(t1) {
				e.CreHi = t1
			}
			if o := e.Origin; o != nil && o.DLMaybe && !e.GuessBound {
				// an optional forwarded copy showed up: its source was dead-lettered
				// (not concluded from a guessed binding: the row may be another source's copy)
				o.State, o.DLMaybe, o.Fuzzy = stDL, false, false
				o.SettledLo = e.CreLo
				o.ForwardCount++
			}
		}
		if e.DLMaybe {
			e.DLMaybe = false
		}
		e.Seen = e.Seen + 1
		if r := attemptOf(resp, e.AckID); r > 0 {
			e.Seen = r
			e.SeenUnc = 0
		}
		e.everDelivered = true
		e.MaybePruned = false // its row exists
		e.LeaseLo = t0.Add(nominalBackoff(cfg, e.Seen))
		e.LeaseHi = t1.Add(nominalBackoff(cfg, e.Seen+e.SeenUnc) + time.Second)
		e.Cause = "lease"
		e.BySeek = false
		if e.Seen > 1 {
			m.probe("redelivery")
		}
	}
	// dead-lettering performed by this pull
	for _, e := range mustDL {
		if e.State != stOut {
			continue // settled meanwhile (an optional forwarded copy of it just showed up)
		}
		if limitBound {
			m.deadLetterMaybe(e, t0)
		} else {
			m.deadLetter(e, t0, t1)
			m.probe("dl_via_pull")
		}
	}
	for _, e := range mayDL {
		if (e.State == stOut || e.Fuzzy) && !contains(mustDL, e) && !seen[e] {
			m.deadLetterMaybe(e, t0)
		}
	}
	// pull activity
	s.ActLo, s.ActHi = t0, t1
	return nil
}

func attemptOf(resp []RecvMsg, ack string) int {
	for _, r := range resp {
		if r.AckID == ack {
			return r.Attempt
		}
	}
	return 0
}

func contains(l []*ED, e *ED) bool {
	for _, x := range l {
		if x == e {
			return true
		}
	}
	return false
}

// PullFailed: a failed / cancelled pull may have refreshed the expiry clock.
func (m *Model) PullFailed(s *MSub, t1 time.Time) {
	if t1.After(s.ActHi) {
		s.ActHi = t1
	}
}

// ---- dead-lettering ------------------------------------------------------------------------

// hasCopies: the subscription holds several deliveries of this message (dead-letter cycles).
// The model cannot tell the copies apart (ack ids are bound by guessing), so which of them a
// dead-letter move retired is a guess too: such moves only produce optional forwards.
func (m *Model) hasCopies(e *ED) bool {
	n := 0
	for _, x := range e.Sub.EDs {
		if x.Msg == e.Msg && x.State != stGone {
			n++
		}
	}
	return n > 1
}

func (m *Model) deadLetter(e *ED, t0, t1 time.Time) {
	if m.hasCopies(e) {
		m.deadLetterMaybe(e, t0)
		m.probe("dl_ambiguous_copy")
		return
	}
	wasMaybe := e.DLMaybe
	e.State = stDL
	e.SettledLo = e.settledSince(t0)
	e.DLMaybe = false
	e.ForwardCount++
	dl := e.Sub.Cfg.DLTopic
	if dl == nil || !dl.Live {
		m.probe("dl_topic_gone")
		return
	}
	for _, ds := range m.subsOfTopic(dl) {
		if !filterMatches(ds.Cfg.Filter, e.Msg.Attrs) {
			continue
		}
		var ex *ED
		for _, f := range e.Fwd {
			if f.Sub == ds && f.FwdRound == e.Round {
				ex = f
			}
		}
		if ex != nil && wasMaybe && !(ex.Fuzzy && ex.Cause == "dlforward-maybe") {
			continue // its copy has been accounted for already
		}
		if ex != nil && wasMaybe && ex.MaybeTaken {
			continue // a delivery bound to a sibling copy by a guess may have been this one: stays optional
		}
		if ex != nil && wasMaybe && ex.LateCopy {
			continue // the target appeared after the move may already have happened: stays optional
		}
		if ex != nil && wasMaybe && ex.BySeek {
			// a seek went over the optional copy meanwhile: if it existed then, the seek
			// settled or re-opened it; if it is created only now, it is outstanding. Stays optional.
			continue
		}
		if ex != nil && wasMaybe {
			// resolved: either forwarded earlier or now
			ex.Fuzzy = false
			ex.State = stOut
			ex.Cause = "dlforward"
			ex.CreHi = t1
			// created either when the move first became possible or now; the target's
			// retention / delay may have been changed in between
			if x := t1.Add(ds.Cfg.Delay); x.After(ex.LeaseHi) || ex.LeaseHi.Equal(farFuture) {
				ex.LeaseHi = x
			}
			if x := t0.Add(ds.Cfg.Delay); x.Before(ex.LeaseLo) {
				ex.LeaseLo = x
			}
			if x := t1.Add(ds.Cfg.Retention); x.After(ex.RetHi) || ex.RetHi.Equal(farFuture) {
				ex.RetHi = x
			}
			if x := t0.Add(ds.Cfg.Retention); x.Before(ex.RetLo) {
				ex.RetLo = x
			}
			continue
		}
		if wasMaybe {
			// the subscription did not exist (or did not match) when the move may first
			// have happened: it got a copy only if the move happens now
			f := m.newED(ds, e.Msg, e, t0, farFuture, "dlforward-maybe")
			f.Fuzzy = true
			f.LeaseHi, f.RetHi = farFuture, farFuture
			f.FwdRound = e.Round
			e.Fwd = append(e.Fwd, f)
			continue
		}
		f := m.newED(ds, e.Msg, e, t0, t1, "dlforward")
		f.FwdRound = e.Round
		e.Fwd = append(e.Fwd, f)
		m.probe("dl_forwarded")
	}
}

func (m *Model) deadLetterMaybe(e *ED, t0 time.Time) {
	already := e.DLMaybe // the move may have happened before: a copy created for a target that
	// appears (or starts matching) only now exists only if the move has NOT happened yet
	e.DLMaybe = true
	m.probe("dl_maybe")
	dl := e.Sub.Cfg.DLTopic
	if dl == nil || !dl.Live {
		return
	}
	for _, ds := range m.subsOfTopic(dl) {
		if !filterMatches(ds.Cfg.Filter, e.Msg.Attrs) {
			continue
		}
		has := false
		for _, f := range e.Fwd {
			if f.Sub == ds && f.FwdRound == e.Round {
				has = true
			}
		}
		if has {
			continue
		}
		f := m.newED(ds, e.Msg, e, t0, farFuture, "dlforward-maybe")
		f.Fuzzy = true
		f.LeaseHi = farFuture
		f.RetHi = farFuture
		f.FwdRound = e.Round
		f.LateCopy = already
		e.Fwd = append(e.Fwd, f)
	}
}

// Sweep models one run of the background dead-letter action with the given batch limit.
// SweepDue counts the deliveries a dead-letter sweep at t certainly finds.
func (m *Model) SweepDue(t time.Time) int {
	n := 0
	for _, s := range m.AllSubs {
		if !s.Live || !s.Cfg.strictDL() {
			continue
		}
		for _, e := range s.EDs {
			if !e.Fuzzy && e.State == stOut && e.Seen >= int(s.Cfg.MaxAttempts) && e.mustAlive(t.Add(time.Second)) && e.mustDue(t) {
				n++
			}
		}
	}
	return n
}

func (m *Model) Sweep(limit int, t0, t1 time.Time) {
	var must, may []*ED
	for _, s := range m.AllSubs {
		if !s.Live || !s.Cfg.fullDL() {
			continue
		}
		for _, e := range s.EDs {
			if e.State != stOut && !e.Fuzzy {
				continue
			}
			if e.Seen+e.SeenUnc < int(s.Cfg.MaxAttempts) {
				continue
			}
			if !(e.mayAlive(t0) && e.mayDue(t1)) {
				continue
			}
			may = append(may, e)
			if s.Cfg.strictDL() && !e.Fuzzy && e.State == stOut && e.Seen >= int(s.Cfg.MaxAttempts) && e.mustAlive(t1) && e.mustDue(t0) {
				must = append(must, e)
			}
		}
	}
	bound := len(may) >= limit
	for _, e := range may {
		if contains(must, e) && !bound {
			m.deadLetter(e, t0, t1)
			m.probe("dl_via_sweep")
		} else if e.State == stOut || e.Fuzzy {
			m.deadLetterMaybe(e, t0)
		}
	}
}

// ---- ack / modack ---------------------------------------------------------------------------

func (m *Model) Ack(named *MSub, ids []string, t0, t1 time.Time) {
	for _, id := range ids {
		e := m.AckIDs[id]
		if e == nil {
			m.probe("ack_unknown_id")
			continue
		}
		if named != nil && e.Sub != named {
			m.probe("ack_foreign_id")
			if e.State == stOut {
				e.Fuzzy = true
			}
			continue
		}
		switch e.State {
		case stOut:
			e.State = stAcked
			e.SettledLo = e.settledSince(t0)
			e.BySeek = false
			if e.DLMaybe {
				e.DLMaybe = false // settled either way on the source
			}
			e.Fuzzy = false
		default:
			m.probe("ack_stale_id")
		}
	}
}

func (m *Model) ModAck(named *MSub, ids []string, d time.Duration, t0, t1 time.Time) {
	for _, id := range ids {
		e := m.AckIDs[id]
		if e == nil {
			continue
		}
		foreign := named != nil && e.Sub != named
		if e.State != stOut {
			m.probe("modack_stale_id")
			continue
		}
		if d > 0 {
			if !foreign {
				if t0.Add(d).After(e.LeaseLo) {
					e.LeaseLo = t0.Add(d)
				}
			}
			if t1.Add(d).After(e.LeaseHi) {
				e.LeaseHi = t1.Add(d)
			}
		} else {
			if t0.Add(d).Before(e.LeaseLo) {
				e.LeaseLo = t0.Add(d)
			}
			if !foreign {
				e.LeaseHi = t1.Add(d)
				e.Cause = "modack0"
			}
		}
	}
}

// ---- seek -----------------------------------------------------------------------------------

// NotePrune records one run of prune-completed-deliveries. Deliveries whose state is not
// known exactly (they may have been completed at any time since they were created) may have
// lost their row in this run; that stays true whatever is learnt about them later, until
// the row is seen again in a delivery.
func (m *Model) NotePrune(at time.Time, minAge time.Duration) {
	m.pruneRuns = append(m.pruneRuns, pruneRun{at: at, minAge: minAge})
	for _, s := range m.AllSubs {
		for _, e := range s.EDs {
			if (e.Fuzzy || e.DLMaybe) && !at.Add(-minAge).Before(e.CreLo.Add(-eps)) {
				e.MaybePruned = true
			}
		}
	}
}

// settledSince: the earliest instant since which the delivery may have been completed, when
// it is settled for certain at t0. If its state was not known exactly (a foreign ack, a
// possible dead-lettering) it may have been completed, and become prunable, at any time
// since it was created.
func (e *ED) settledSince(t0 time.Time) time.Time {
	if e.Fuzzy || e.DLMaybe {
		return e.CreLo
	}
	return t0
}

func (m *Model) mayHaveBeenPruned(e *ED, now time.Time) bool {
	for _, p := range m.pruneRuns {
		if p.at.After(e.SettledLo) && !p.at.Add(-p.minAge).Before(e.SettledLo.Add(-eps)) {
			return true
		}
	}
	return false
}

func (m *Model) revive(e *ED, t0, t1 time.Time) {
	e.SnapPruned = false
	e.SnapCopy = false
	if e.MaybePruned || m.mayHaveBeenPruned(e, t0) {
		e.MaybePruned = true // sticky: a row that may be gone stays "may be gone" through later seeks
		// the completed row may have been pruned (then nothing is revived) or not (then it
		// is outstanding again with lease and retention restarted by the seek)
		m.fuzzyBySeek(e, t0, t1)
		m.probe("seek_revive_maybe_pruned")
		return
	}
	e.State = stOut
	e.Fuzzy = false
	e.DLMaybe = false
	e.RetLo, e.RetHi = t0.Add(e.Sub.Cfg.Retention), t1.Add(e.Sub.Cfg.Retention)
	e.LeaseLo, e.LeaseHi = t0, t1
	e.Cause = "seek"
	e.BySeek = true
	e.ForwardCount = 0
	e.Round++
	m.probe("seek_revived")
}

// fuzzyBySeek: the seek landed in a zone where the text says nothing; afterwards the delivery
// may be acknowledged, or outstanding with a lease and retention restarted by the seek.
func (m *Model) fuzzyBySeek(e *ED, t0, t1 time.Time) {
	e.SnapPruned = false
	e.SnapCopy = false
	e.Fuzzy = true
	e.BySeek = true
	if e.State != stOut || e.DLMaybe {
		e.Round++ // may have been re-opened: whatever it forwarded before is a closed round
		e.DLMaybe = false
	}
	if t0.Before(e.LeaseLo) {
		e.LeaseLo = t0
	}
	if r := t1.Add(e.Sub.Cfg.Retention); r.After(e.RetHi) {
		e.RetHi = r
	}
	if r := t0.Add(e.Sub.Cfg.Retention); r.Before(e.RetLo) {
		e.RetLo = r // a revival restarts retention with the subscription's current (possibly shorter) value
	}
	m.probe("seek_fuzzy")
}

func (m *Model) settleBySeek(e *ED, t0 time.Time) {
	e.SnapPruned = false
	e.SnapCopy = false
	e.State = stAcked
	e.SettledLo = e.settledSince(t0)
	e.Fuzzy = false
	e.DLMaybe = false
	e.BySeek = true
	m.probe("seek_acked")
}

func (m *Model) SeekTime(s *MSub, T time.Time, t0, t1 time.Time) {
	s.everSeeked = true
	for _, e := range s.EDs {
		if e.State == stGone {
			continue
		}
		alive := e.mustAlive(t1)
		dead := !e.mayAlive(t0)
		if dead {
			continue
		}
		if !alive {
			m.fuzzyBySeek(e, t0, t1)
			continue
		}
		before := !e.CreHi.After(T)
		after := e.CreLo.After(T)
		switch {
		case before:
			if e.State == stOut || e.Fuzzy || e.DLMaybe {
				m.settleBySeek(e, t0)
			} else if e.State == stAcked {
				e.BySeek = true // the seek confirmed it acknowledged: a later delivery is the seek's doing
			}
		case after:
			if e.Fuzzy {
				// unknown state before; after the seek it is outstanding either way, but
				// its lease/retention are unknown
				m.fuzzyBySeek(e, t0, t1)
			} else if e.DLMaybe {
				e.DLMaybe = false
				e.Round++ // if it was dead-lettered, the seek re-opened it: a new round
				if t0.Add(s.Cfg.Retention).Before(e.RetLo) {
					e.RetLo = t0.Add(s.Cfg.Retention)
				}
				if t1.Add(s.Cfg.Retention).After(e.RetHi) {
					e.RetHi = t1.Add(s.Cfg.Retention)
				}
				if t0.Before(e.LeaseLo) {
					e.LeaseLo = t0
				}
				e.BySeek = true
			} else if e.State != stOut {
				m.revive(e, t0, t1)
			}
		default:
			m.fuzzyBySeek(e, t0, t1)
		}
	}
}

func (m *Model) CreateSnap(name string, s *MSub, labels map[string]string, t0, t1 time.Time) *MSnap {
	sn := &MSnap{Name: name, Sub: s, Topic: s.Topic, T0: t0, T1: t1, InU: map[*MMsg]int{}, ByED: map[*ED]int{}, PrunedAck: map[*MMsg]bool{}, Labels: labels}
	count := map[*MMsg]int{}
	for _, e := range s.EDs {
		if e.State != stGone {
			count[e.Msg]++
		}
	}
	for _, e := range s.EDs {
		if e.State == stGone {
			continue
		}
		st := 0
		switch {
		case e.Fuzzy || e.DLMaybe || count[e.Msg] > 1:
			// several deliveries of one message on this subscription (dead-letter cycle):
			// the text does not say which one the snapshot refers to
			st = 2
		case e.State == stOut && e.mustAlive(t1):
			st = 1
		case e.State == stOut:
			st = 2 // expired or in the boundary zone, unacked: the text does not say
		}
		sn.ByED[e] = st
		if e.Origin == nil && count[e.Msg] == 1 {
			sn.InU[e.Msg] = st
			if st == 0 && e.State == stAcked && (e.MaybePruned || m.mayHaveBeenPruned(e, t0)) {
				sn.PrunedAck[e.Msg] = true
				m.probe("snapshot_after_pruned_ack")
			}
		}
	}
	m.Snaps[name] = sn
	return sn
}

func (m *Model) SeekSnap(s *MSub, sn *MSnap, t0, t1 time.Time) {
	s.everSeeked = true
	own := sn.Sub == s
	for _, e := range s.EDs {
		if e.State == stGone {
			continue
		}
		if !e.mayAlive(t0) {
			// retention is over: a seek restores retained messages only (C13/C14), so the
			// delivery keeps whatever state it had and is never delivered again
			continue
		}
		if !e.mustAlive(t1) {
			// boundary zone of the retention deadline: nothing asserted
			m.fuzzyBySeek(e, t0, t1)
			continue
		}
		if e.GuessBound || e.MaybeTaken {
			// which row this expectation stands for was a guess: the snapshot's view of
			// "this delivery" may be that of the other candidate
			m.fuzzyBySeek(e, t0, t1)
			continue
		}
		want := 2 // 1 outstanding, 0 acknowledged, 2 the text does not say
		msgAfter := e.Msg.T0.After(sn.T1)
		if own {
			if st, ok := sn.ByED[e]; ok {
				want = st
			} else if e.CreLo.After(sn.T1) && (e.Origin == nil || msgAfter) {
				want = 1
			}
		} else if e.Origin == nil {
			if st, ok := sn.InU[e.Msg]; ok && !e.CreLo.After(sn.T1) {
				want = st
			} else if msgAfter {
				want = 1
			}
		} else if msgAfter {
			want = 1
		}
		if own && e.Origin != nil && want == 0 {
			// (known finding) the ack list of a snapshot is built from the topic's messages by
			// message publish time; a dead-letter forwarded copy never gets onto it, so the
			// seek may re-open this acknowledged copy
			m.fuzzyBySeek(e, t0, t1)
			e.SnapCopy = true
			m.probe("own_seek_over_acked_dead_letter_copy")
			continue
		}
		switch want {
		case 1:
			if e.Fuzzy {
				m.fuzzyBySeek(e, t0, t1) // stays unknown in lease terms
			} else if e.DLMaybe {
				m.fuzzyBySeek(e, t0, t1)
			} else if e.State != stOut {
				m.revive(e, t0, t1)
			}
		case 0:
			if e.State == stOut || e.Fuzzy || e.DLMaybe {
				m.settleBySeek(e, t0)
			}
			if !own && e.Origin == nil && sn.PrunedAck[e.Msg] && e.State == stAcked {
				// (known finding) the snapshot may have forgotten this ack: the delivery may
				// really be outstanding again, and then be redelivered or dead-lettered
				m.fuzzyBySeek(e, t0, t1)
				e.SnapPruned = true
				m.probe("sibling_seek_to_snapshot_with_pruned_ack")
			}
		default:
			m.fuzzyBySeek(e, t0, t1)
		}
	}
}

// ---- subscription expiry --------------------------------------------------------------------

// ExpiryVerdict: 1 must be deleted by a sweep at [t0,t1], 0 must remain, 2 unknown
func (m *Model) ExpiryVerdict(s *MSub, t0, t1 time.Time) int {
	if s.attached {
		if s.ActLo.Add(s.Cfg.TTL).After(t1.Add(eps)) {
			return 0
		}
		return 2
	}
	if s.ActHi.Add(s.Cfg.TTL).Before(t0.Add(-eps)) {
		return 1
	}
	if s.ActLo.Add(s.Cfg.TTL).After(t1.Add(eps)) {
		return 0
	}
	return 2
}

// ---- drain support --------------------------------------------------------------------------

// Outstanding returns definite outstanding deliveries on live subscriptions that are still
// within retention at t.
func (m *Model) Outstanding(t time.Time) []*ED {
	var out []*ED
	for _, s := range m.AllSubs {
		if !s.Live {
			continue
		}
		for _, e := range s.EDs {
			if e.State == stOut && !e.Fuzzy && e.mustAlive(t) {
				out = append(out, e)
			}
		}
	}
	return out
}

// Hash is an abstract state fingerprint used as a coverage measure.
func (m *Model) Hash() uint64 {
	var parts []string
	for _, s := range m.AllSubs {
		if !s.Live {
			continue
		}
		c := [8]int{}
		for _, e := range s.EDs {
			i := e.State
			if e.Fuzzy {
				i = 4
			}
			if e.DLMaybe {
				i = 5
			}
			c[i]++
			if e.Seen > 1 {
				c[6]++
			}
			if e.Origin != nil {
				c[7]++
			}
		}
		parts = append(parts, fmt.Sprintf("%v|%v|%v|%d|%v", s.Cfg.Ordered, s.Cfg.fullDL(), s.Cfg.Filter != "", s.Cfg.MaxAttempts, c))
	}
	sort.Strings(parts)
	h := uint64(1469598103934665603)
	for _, p := range parts {
		for i := 0; i < len(p); i++ {
			h ^= uint64(p[i])
			h *= 1099511628211
		}
	}
	return h
}

// describe lists the model's view of all deliveries of e's message (debugging aid in reports).
func (m *Model) describe(e *ED) string {
	var sb strings.Builder
	sb.WriteString("\n  model deliveries of this message:")
	for _, s := range m.AllSubs {
		for _, x := range s.EDs {
			if x.Msg != e.Msg {
				continue
			}
			org := "publish"
			if x.Origin != nil {
				org = fmt.Sprintf("dl-from %s#%d(ack %.8s)", x.Origin.Sub.Name[len("projects/p/subscriptions/"):], x.Origin.Sub.Gen, x.Origin.AckID)
			}
			mark := " "
			if x == e {
				mark = "*"
			}
			sb.WriteString(fmt.Sprintf("\n  %s %v ack=%.8s origin=%s created=%v lease=[%v,%v]", mark, x, x.AckID, org, x.CreLo.Sub(epoch), x.LeaseLo.Sub(epoch), x.LeaseHi.Sub(epoch)))
		}
	}
	return sb.String()
}

// MustDeliverable returns the deliveries of s that are definitely deliverable at [t0,t1]
// (outstanding, within retention, lease over, not blocked by an ordered predecessor, not due
// for dead-lettering). Used by the quiescence oracles of the concurrent profiles.
func (m *Model) MustDeliverable(s *MSub, t0, t1 time.Time) []*ED {
	cfg := &s.Cfg
	var out []*ED
	for _, e := range s.EDs {
		if e.State != stOut || e.Fuzzy || e.DLMaybe {
			continue
		}
		if !e.mustAlive(t1) || !e.mustDue(t0) {
			continue
		}
		if (cfg.Ordered || s.OrderedToggled) && e.Msg.Key != "" {
			if s.OrderedToggled {
				continue
			}
			if m.orderBlocked(e, t0) {
				continue
			}
		}
		if cfg.fullDL() && e.Seen+e.SeenUnc >= int(cfg.MaxAttempts) {
			continue
		}
		out = append(out, e)
	}
	return out
}

// Nack models the backoff-rescheduling nack: an outstanding delivery is rescheduled by the
// backoff of its current attempt count, or dead-lettered if it has used up its attempts;
// acknowledged, dead-lettered or expired deliveries are not touched.
func (m *Model) Nack(ids []string, t0, t1 time.Time) {
	done := map[*ED]bool{}
	for _, id := range ids {
		e := m.AckIDs[id]
		if e == nil || done[e] {
			continue
		}
		done[e] = true
		if e.State == stGone {
			// a nack with an ack id of a deleted subscription: whether that still dead-letters
			// the delivery is not defined by the text; forwarded copies are optional
			if c := &e.Sub.Cfg; c.fullDL() && e.Seen+e.SeenUnc >= int(c.MaxAttempts) && e.mayAlive(t0) {
				m.deadLetterMaybe(e, t0)
				e.State = stGone
			}
			continue
		}
		if e.State != stOut && !e.Fuzzy {
			m.probe("nack_stale_id")
			continue
		}
		if !e.mayAlive(t0) {
			continue
		}
		cfg := &e.Sub.Cfg
		lo := t0.Add(nominalBackoff(cfg, e.Seen))
		hi := t1.Add(nominalBackoff(cfg, e.Seen+e.SeenUnc) + time.Second)
		certain := !e.Fuzzy && !e.DLMaybe && e.mustAlive(t1) && e.Sub.Live
		if cfg.fullDL() && e.Seen+e.SeenUnc >= int(cfg.MaxAttempts) {
			if certain && e.Seen >= int(cfg.MaxAttempts) && cfg.strictDL() {
				m.deadLetter(e, t0, t1)
				m.probe("dl_via_nack")
			} else if e.Sub.Live {
				m.deadLetterMaybe(e, t0)
				if lo.Before(e.LeaseLo) {
					e.LeaseLo = lo
				}
				if hi.After(e.LeaseHi) {
					e.LeaseHi = hi
				}
			}
			continue
		}
		if certain {
			e.LeaseLo, e.LeaseHi = lo, hi
			e.Cause = "lease"
			m.probe("nacked")
		} else {
			if lo.Before(e.LeaseLo) {
				e.LeaseLo = lo
			}
			if hi.After(e.LeaseHi) {
				e.LeaseHi = hi
			}
		}
	}
}

// ConfigChanged must be called after a subscription's retention or delivery delay changed:
// optional forwarded copies whose creation time is still open may be created under the new
// values.
func (m *Model) ConfigChanged(s *MSub) {
	for _, e := range s.EDs {
		if e.Fuzzy && e.Cause == "dlforward-maybe" {
			if x := e.CreLo.Add(s.Cfg.Retention); x.Before(e.RetLo) {
				e.RetLo = x
			}
			if x := e.CreLo.Add(s.Cfg.Delay); x.Before(e.LeaseLo) {
				e.LeaseLo = x
			}
		}
	}
}

// orderBlocked: is e (keyed, on an ordering subscription) possibly held back by another
// same-key delivery? Earlier deliveries block it; for dead-letter-forwarded copies the order
// inside one forwarding batch is the implementation's choice, so same-batch copies block too.
func (m *Model) orderBlocked(e *ED, t0 time.Time) bool {
	seenSelf := false
	for _, p := range e.Sub.EDs {
		if p == e {
			seenSelf = true
			continue
		}
		if p.Msg.Key != e.Msg.Key || p.State == stGone {
			continue
		}
		if !seenSelf {
			if !p.definitelySettled(t0) {
				return true
			}
		} else if e.Origin != nil && p.Origin != nil && !p.CreLo.After(e.CreHi) && !p.CreHi.Before(e.CreLo) {
			if !p.definitelySettled(t0) {
				return true
			}
		}
	}
	return false
}
