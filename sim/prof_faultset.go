package sim

// faultset (C18): concurrent callers of faults.Set (Check / Add / Current and the prune
// goroutines Check spawns) interleaved by the tape at statement level (the check build
// inserts a yield before every statement of the lock-free methods). The invoke/return
// history is checked with porcupine against the sequential specification; at quiescence the
// listing must show exactly the descriptions with invocations left.

import (
	"context"
	"errors"
	"fmt"
	"sort"
	"strings"
	"testing"
	"time"

	"github.com/anishathalye/porcupine"
	"google.golang.org/grpc/codes"
	"google.golang.org/grpc/status"

	"go.6river.tech/mmmbbb/faults"
	"go.6river.tech/mmmbbb/grpc/pubsubpb"
)

type fsDesc struct {
	id     int
	op     string
	params map[string]string
	count  int64
}

type fsIn struct {
	kind   string // check | add
	op     string
	params map[string]string
	desc   fsDesc
}

type fsOut struct {
	fired int // id of the description that fired, -1 none
}

type fsState struct {
	descs []fsDesc // insertion order
}

func fsMatch(d fsDesc, op string, p map[string]string) bool {
	if d.op != op || d.count <= 0 {
		return false
	}
	for k, v := range d.params {
		if vv, ok := p[k]; !ok || vv != v {
			return false
		}
	}
	return true
}

func fsKey(st fsState) string {
	var sb strings.Builder
	for _, d := range st.descs {
		fmt.Fprintf(&sb, "%d:%d;", d.id, d.count)
	}
	return sb.String()
}

var fsModel = porcupine.Model{
	Init: func() interface{} { return fsState{} },
	Step: func(state, input, output interface{}) (bool, interface{}) {
		st := state.(fsState)
		in := input.(fsIn)
		out := output.(fsOut)
		switch in.kind {
		case "add":
			nd := append(append([]fsDesc{}, st.descs...), in.desc)
			return true, fsState{nd}
		default:
			if out.fired < 0 {
				for _, d := range st.descs {
					if fsMatch(d, in.op, in.params) {
						return false, st
					}
				}
				return true, st
			}
			for i, d := range st.descs {
				if d.id == out.fired {
					if !fsMatch(d, in.op, in.params) {
						return false, st
					}
					nd := append([]fsDesc{}, st.descs...)
					nd[i].count--
					return true, fsState{nd}
				}
			}
			return false, st
		}
	},
	Equal: func(a, b interface{}) bool { return fsKey(a.(fsState)) == fsKey(b.(fsState)) },
	DescribeOperation: func(input, output interface{}) string {
		in := input.(fsIn)
		if in.kind == "add" {
			return fmt.Sprintf("Add(#%d %s %v x%d)", in.desc.id, in.desc.op, in.desc.params, in.desc.count)
		}
		return fmt.Sprintf("Check(%s %v) -> %d", in.op, in.params, output.(fsOut).fired)
	},
}

var fsVocabK = []string{"topic", "subscription", "name"}
var fsVocabV = []string{"a", "b", ""}

func fsParams(t *Tape, max int) map[string]string {
	p := map[string]string{}
	n := t.Intn(max + 1)
	for i := 0; i < n; i++ {
		p[fsVocabK[t.Intn(len(fsVocabK))]] = fsVocabV[t.Intn(len(fsVocabV))]
	}
	return p
}

func runFaultSet(t *testing.T, tape *Tape, w *World, variant string, steps int, out *runOutcome) {
	if variant == "e2e" {
		runFaultSetE2E(t, tape, w, out)
		return
	}
	var trace []string
	ev := func(f string, a ...any) { trace = append(trace, fmt.Sprintf(f, a...)) }
	stats := map[string]int{}
	defer func() { out.trace, out.stats = trace, stats; out.sample = sampleOf(trace); out.header = 1 }()
	tape.Frame()
	set := faults.NewSet(fmt.Sprintf("fs%d", runCounter))
	faults.VerifYield = func(pos string) { S.YieldGM("fs:" + pos) }
	defer func() { faults.VerifYield = nil }()
	var clock int64
	var ops []porcupine.Operation
	descID := 0
	firedBy := map[int]int{}
	added := map[int]fsDesc{}
	// swarm: in most runs everything concerns one operation, so that its descriptor list is
	// long enough for prune's compaction to move live entries past a concurrent matcher
	oneOp := tape.Bool(60)
	opOf := func() string {
		if oneOp {
			return "A"
		}
		return []string{"A", "B"}[tape.Intn(2)]
	}
	mkDesc := func() fsDesc {
		descID++
		cnt := int64(tape.Intn(5))
		if oneOp && tape.Bool(50) {
			cnt = 1 // exhausted by its first match: prune work while others are matching
		}
		return fsDesc{id: descID, op: opOf(), params: fsParams(tape, 2), count: cnt}
	}
	toFault := func(d fsDesc) faults.Description {
		id := d.id
		return faults.Description{Operation: d.op, Parameters: d.params, Count: d.count, FaultDescription: fmt.Sprint(id), OnFault: func(dd faults.Description, _ faults.Parameters) error {
			return fmt.Errorf("fault:%d", id)
		}}
	}
	// some descriptions exist before the race
	pre := tape.Intn(3)
	if oneOp {
		pre = tape.Intn(7)
	}
	for i := 0; i < pre; i++ {
		d := mkDesc()
		set.Add(toFault(d))
		added[d.id] = d
		clock++
		c := clock
		clock++
		ops = append(ops, porcupine.Operation{ClientId: 0, Input: fsIn{kind: "add", desc: d}, Call: c, Output: fsOut{-1}, Return: clock})
		ev("pre Add #%d %s %v x%d", d.id, d.op, d.params, d.count)
	}
	S.on = true
	c := &conc{t: tape}
	var listViol *Violation
	ncallers := 1 + tape.Intn(6)
	for ci := 0; ci < ncallers; ci++ {
		ci := ci
		nops := 1 + tape.Intn(4)
		type planned struct {
			in fsIn
		}
		var plan []planned
		for k := 0; k < nops; k++ {
			if tape.Intn(7) == 0 {
				// a listing in the middle of everything: never shows a used-up description
				plan = append(plan, planned{fsIn{kind: "list"}})
			} else if tape.Intn(5) == 0 {
				d := mkDesc()
				added[d.id] = d
				plan = append(plan, planned{fsIn{kind: "add", desc: d}})
			} else {
				plan = append(plan, planned{fsIn{kind: "check", op: opOf(), params: fsParams(tape, 3)}})
			}
		}
		c.spawn(fmt.Sprintf("caller%d", ci), func(ctx context.Context) {
			for _, p := range plan {
				S.Yield(ctx, "op")
				if p.in.kind == "list" {
					for _, l := range set.Current() {
						for _, d := range l {
							if d.Count <= 0 && listViol == nil {
								listViol = viol("C18", "listing", "a listing taken while calls are in progress shows fault #%s (%s) with %d invocations left: an exhausted fault must not be listed", d.FaultDescription, d.Operation, d.Count)
							}
						}
					}
					stats["fs_listed_midway"]++
					continue
				}
				clock++
				call := clock
				o := fsOut{-1}
				if p.in.kind == "add" {
					set.Add(toFault(p.in.desc))
				} else {
					err := set.Check(p.in.op, p.in.params)
					if err != nil {
						fmt.Sscanf(err.Error(), "fault:%d", &o.fired)
						firedBy[o.fired]++
					}
				}
				clock++
				ops = append(ops, porcupine.Operation{ClientId: ci + 1, Input: p.in, Call: call, Output: o, Return: clock})
				ev("caller%d %s", ci, fsModel.DescribeOperation(p.in, o))
			}
		})
	}
	_, ok := c.run(20000, nil)
	if !ok {
		stats["truncated"]++
	}
	// let the prune goroutines finish
	for i := 0; i < 200; i++ {
		keys := S.ParkedKeys()
		if len(keys) == 0 {
			break
		}
		S.Resume(keys[tape.Intn(len(keys))])
	}
	c.finish()
	if listViol != nil {
		out.v = listViol
		return
	}
	stats["fs_ops"] += len(ops)
	stats["conc_steps"] += c.steps
	res := porcupine.CheckOperationsTimeout(fsModel, ops, 20*time.Second)
	switch res {
	case porcupine.Illegal:
		out.v = viol("C18", "not_linearizable", "history of %d Check/Add calls is not linearizable against the fault-set specification (a call failed without an available matching fault, a matching call passed while a fault had invocations left, or a fault fired more often than its count)", len(ops))
		return
	case porcupine.Unknown:
		stats["porcupine_unknown"]++
	default:
		stats["porcupine_ok"]++
	}
	// conservation + listing at quiescence
	cur := set.Current()
	listed := map[int]int64{}
	for _, l := range cur {
		for _, d := range l {
			var id int
			fmt.Sscan(d.FaultDescription, &id)
			listed[id] = d.Count
		}
	}
	var ids []int
	for id := range added {
		ids = append(ids, id)
	}
	sort.Ints(ids)
	for _, id := range ids {
		d := added[id]
		if int64(firedBy[id]) > d.count {
			out.v = viol("C18", "fired_too_often", "fault #%d (%s %v) with count %d fired %d times", id, d.op, d.params, d.count, firedBy[id])
			return
		}
		left := d.count - int64(firedBy[id])
		got, isListed := listed[id]
		if left > 0 && (!isListed || got != left) {
			out.v = viol("C18", "listing", "fault #%d has %d invocations left but Current() lists %v (listed=%v)", id, left, got, isListed)
			return
		}
		if left <= 0 && isListed {
			out.v = viol("C18", "listing", "exhausted fault #%d is still listed with count %d", id, got)
			return
		}
	}
	if len(firedBy) > 0 {
		stats["fs_some_fault_fired"]++
	}
}

// end-to-end: the same guarantee through the production unary interceptor with real RPCs.
func runFaultSetE2E(t *testing.T, tape *Tape, w *World, out *runOutcome) {
	var trace []string
	ev := func(f string, a ...any) { trace = append(trace, fmt.Sprintf(f, a...)) }
	stats := map[string]int{}
	defer func() { out.trace, out.stats = trace, stats; out.sample = sampleOf(trace); out.header = 1 }()
	tape.Frame()
	faults.VerifYield = func(pos string) { S.YieldGM("fs:" + pos) }
	defer func() { faults.VerifYield = nil }()
	ctx0 := context.Background()
	for _, n := range []string{"a", "b"} {
		if _, err := w.Call(ctx0, "CreateTopic", &pubsubpb.Topic{Name: "projects/f/topics/" + n}); err != nil {
			panic("HARNESS: " + err.Error())
		}
	}
	nA := int64(tape.Intn(5))
	w.Faults.Add(faults.Description{Operation: "GetTopic", Parameters: map[string]string{"topic": "projects/f/topics/a"}, Count: nA, FaultDescription: "A",
		OnFault: func(faults.Description, faults.Parameters) error { return status.Error(codes.Unavailable, "injected") }})
	anyN := int64(0)
	if tape.Bool(30) {
		anyN = int64(1 + tape.Intn(2))
		w.Faults.Add(faults.Description{Operation: "DeleteTopic", Count: anyN, FaultDescription: "D",
			OnFault: func(faults.Description, faults.Parameters) error { return status.Error(codes.Unavailable, "injected") }})
	}
	S.on = true
	c := &conc{t: tape}
	var failedA, callsA, failedB, callsB, failedOther int
	ncallers := 2 + tape.Intn(5)
	for ci := 0; ci < ncallers; ci++ {
		ci := ci
		n := 1 + tape.Intn(3)
		var targets []string
		for k := 0; k < n; k++ {
			targets = append(targets, []string{"a", "a", "b"}[tape.Intn(3)])
		}
		c.spawn(fmt.Sprintf("rpc%d", ci), func(ctx context.Context) {
			for _, tg := range targets {
				_, err := w.Call(ctx, "GetTopic", &pubsubpb.GetTopicRequest{Topic: "projects/f/topics/" + tg})
				inj := code(err) == codes.Unavailable
				if tg == "a" {
					callsA++
					if inj {
						failedA++
					}
				} else {
					callsB++
					if inj {
						failedB++
					}
				}
				if err != nil && !inj {
					failedOther++
				}
				ev("rpc%d GetTopic %s -> %v", ci, tg, code(err))
			}
		})
	}
	_, ok := c.run(20000, nil)
	if !ok {
		stats["truncated"]++
	}
	for i := 0; i < 200; i++ {
		keys := S.ParkedKeys()
		if len(keys) == 0 {
			break
		}
		S.Resume(keys[tape.Intn(len(keys))])
	}
	c.finish()
	stats["conc_steps"] += c.steps
	want := int(nA)
	if callsA < want {
		want = callsA
	}
	if failedA != want {
		out.v = viol("C18", "e2e_exact_count", "fault for GetTopic{topic=a} with count %d and %d matching calls failed %d calls, expected %d", nA, callsA, failedA, want)
		return
	}
	if failedB != 0 || failedOther != 0 {
		out.v = viol("C18", "e2e_non_matching_failed", "%d non-matching GetTopic{topic=b} calls were failed by the injected fault (%d other errors)", failedB, failedOther)
		return
	}
	cur := w.Faults.Current()
	left := int(nA) - failedA
	var gotA int64 = -1
	for _, d := range cur["GetTopic"] {
		if d.FaultDescription == "A" {
			gotA = d.Count
		}
	}
	if (left > 0 && gotA != int64(left)) || (left == 0 && gotA != -1) {
		out.v = viol("C18", "listing", "GetTopic fault has %d invocations left but Current() reports %d (-1 = not listed)", left, gotA)
		return
	}
	if len(cur["DeleteTopic"]) != 0 && anyN == 0 {
		out.v = viol("C18", "listing", "unexpected DeleteTopic fault listed")
	}
	_ = errors.New
	if out.v == nil {
		out.v = faultSetStreams(w, ev, stats)
	}
}

// faultSetStreams: the same guarantee on the streaming interceptor. A fault on
// StreamingPull:RecvMsg with parameter subscription=A and count 3 must fail exactly the frames
// that name A (the first frame of a stream on A), never a frame of a stream on B, whatever was
// received on other streams just before.
func faultSetStreams(w *World, ev func(string, ...any), stats map[string]int) *Violation {
	ctx0 := context.Background()
	subA, subB := "projects/f/subscriptions/sa", "projects/f/subscriptions/sb"
	for _, x := range []struct{ s, t string }{{subA, "projects/f/topics/a"}, {subB, "projects/f/topics/b"}} {
		if _, err := w.Call(ctx0, "CreateSubscription", &pubsubpb.Subscription{Name: x.s, Topic: x.t}); err != nil {
			if code(err) == codes.Unavailable {
				return nil // an injected fault of the first phase is still armed for this call: skip
			}
			panic("HARNESS: " + err.Error())
		}
	}
	type strm struct {
		in     chan *pubsubpb.StreamingPullRequest
		done   chan struct{}
		err    error
		closed bool
	}
	var all []*strm
	closeIn := func(st *strm) {
		if !st.closed {
			st.closed = true
			close(st.in)
		}
	}
	// whatever the verdict, no stream is left open behind (the bubble must drain)
	defer func() {
		for _, st := range all {
			closeIn(st)
		}
		S.Settle()
	}()
	open := func(sub string) *strm {
		st := &strm{in: make(chan *pubsubpb.StreamingPullRequest, 4), done: make(chan struct{})}
		all = append(all, st)
		fs := &fakeStream{ctx: ctx0, in: st.in, sent: func(*pubsubpb.StreamingPullResponse) {}}
		go func() {
			defer close(st.done)
			st.err = w.StreamingPull(fs)
		}()
		st.in <- &pubsubpb.StreamingPullRequest{Subscription: sub, StreamAckDeadlineSeconds: 10, MaxOutstandingMessages: 10}
		S.Settle()
		return st
	}
	ended := func(st *strm) bool {
		select {
		case <-st.done:
			return true
		default:
			return false
		}
	}
	// use up what the first phase left, so that the next stream is opened while NO fault at all
	// is configured; a fault injected later must still reach it
	for w.Faults.Check("GetTopic", faults.Parameters{"topic": "projects/f/topics/a"}) != nil {
	}
	for w.Faults.Check("DeleteTopic", nil) != nil {
	}
	S.Settle()
	early := open(subB)
	if ended(early) {
		return viol("C18", "e2e_stream_non_matching_failed", "a stream opened while no fault is configured ended at once: %v", early.err)
	}
	w.Faults.Add(faults.Description{Operation: "StreamingPull:RecvMsg", Parameters: map[string]string{"subscription": subA}, Count: 3, FaultDescription: "R",
		OnFault: func(faults.Description, faults.Parameters) error { return status.Error(codes.Unavailable, "injected") }})
	a1 := open(subA)
	if !ended(a1) || code(a1.err) != codes.Unavailable {
		return viol("C18", "e2e_stream_exact_count", "first frame of a stream on %s (matching the injected RecvMsg fault) was not failed: ended=%v err=%v", subA, ended(a1), a1.err)
	}
	b := open(subB)
	if ended(b) {
		return viol("C18", "e2e_stream_non_matching_failed", "the first frame of a stream on %s was failed by a fault injected for %s: %v", subB, subA, b.err)
	}
	a2 := open(subA)
	if !ended(a2) || code(a2.err) != codes.Unavailable {
		return viol("C18", "e2e_stream_exact_count", "second matching first frame was not failed: ended=%v err=%v", ended(a2), a2.err)
	}
	// an ack-only frame on B, right after a frame naming A was received on another stream
	b.in <- &pubsubpb.StreamingPullRequest{AckIds: []string{"00000000-0000-0000-0000-000000000001"}}
	S.Settle()
	if ended(b) {
		return viol("C18", "e2e_stream_non_matching_failed", "an ack-only frame on the stream of %s was failed by the fault injected for %s: %v", subB, subA, b.err)
	}
	// a fault for the stream-START operation, injected while a stream is open: frames of the
	// open stream are a different operation and must pass; exactly the next start fails
	w.Faults.Add(faults.Description{Operation: "StreamingPull", Count: 1, FaultDescription: "S",
		OnFault: func(faults.Description, faults.Parameters) error { return status.Error(codes.Unavailable, "injected") }})
	b.in <- &pubsubpb.StreamingPullRequest{AckIds: []string{"00000000-0000-0000-0000-000000000003"}}
	S.Settle()
	if ended(b) {
		return viol("C18", "e2e_stream_non_matching_failed", "a frame on an open stream was failed by a fault injected for the stream-start operation: %v", b.err)
	}
	if s1 := open(subB); !ended(s1) || code(s1.err) != codes.Unavailable {
		if !ended(s1) {
			closeIn(s1)
			S.Settle()
		}
		return viol("C18", "e2e_stream_exact_count", "the stream start that followed the injection of a stream-start fault (count 1) was not failed: ended=%v err=%v", ended(s1), s1.err)
	}
	s2 := open(subB)
	if ended(s2) {
		return viol("C18", "e2e_stream_exact_count", "a second stream start was failed by a stream-start fault with count 1: %v", s2.err)
	}
	closeIn(s2)
	S.Settle()
	if l := w.Faults.Current()["StreamingPull"]; len(l) != 0 {
		return viol("C18", "listing", "the exhausted stream-start fault is still listed: %v", l)
	}
	closeIn(b)
	S.Settle()
	left := int64(-1)
	for _, d := range w.Faults.Current()["StreamingPull:RecvMsg"] {
		if d.FaultDescription == "R" {
			left = d.Count
		}
	}
	if left != 1 {
		return viol("C18", "listing", "StreamingPull:RecvMsg fault fired twice out of 3 but Current() reports %d left (-1 = not listed)", left)
	}
	// the stream that was opened before any fault existed: a fault without parameters injected
	// now must fail its next frame, and be used up by that
	w.Faults.Add(faults.Description{Operation: "StreamingPull:RecvMsg", Count: 1, FaultDescription: "E",
		OnFault: func(faults.Description, faults.Parameters) error { return status.Error(codes.Unavailable, "injected") }})
	early.in <- &pubsubpb.StreamingPullRequest{AckIds: []string{"00000000-0000-0000-0000-000000000002"}}
	S.Settle()
	if !ended(early) || code(early.err) != codes.Unavailable {
		if !ended(early) {
			closeIn(early)
			S.Settle()
		}
		return viol("C18", "e2e_stream_exact_count", "a fault injected after the stream was opened did not fail the stream's next frame: ended=%v err=%v", ended(early), early.err)
	}
	for _, d := range w.Faults.Current()["StreamingPull:RecvMsg"] {
		if d.FaultDescription == "E" {
			return viol("C18", "listing", "the exhausted fault E is still listed with count %d", d.Count)
		}
	}
	ev("stream phase: 2 matching frames failed, 2 non-matching frames passed, 1 left; late fault reached the early stream")
	stats["fs_stream_phase"]++
	return nil
}

func init() { engines["faultset"] = runFaultSet }
