package sim

// Simulator core: choice tape, cooperative scheduler, wrapped SQL driver (yields, ticks,
// fault injection), goroutine->task identity. See DESIGN.md section 2.

import (
	"context"
	"database/sql"
	"database/sql/driver"
	"errors"
	"fmt"
	"math/rand"
	"os"
	"runtime"
	"sort"
	"strings"
	"sync"
	"sync/atomic"
	"testing/synctest"
	"time"

	"github.com/mattn/go-sqlite3"
)

// ---------------------------------------------------------------------------------------
// Tape: the single source of choices. Recording mode draws from a PRNG and records; replay
// mode reads the recorded values (0 past the end). Frames group the draws of one scheduler
// step so that the minimiser can delete whole steps.

type Tape struct {
	rng    *rand.Rand
	replay bool
	vals   []int64 // flat values
	marks  []int   // index into vals where each frame starts
	pos    int
	// replay input, framed
	frames  [][]int64
	fpos    int // current frame index in replay
	fcursor int // cursor inside current frame
}

func NewTape(seed int64) *Tape { return &Tape{rng: rand.New(rand.NewSource(seed))} }

func ReplayTape(frames [][]int64) *Tape { return &Tape{replay: true, frames: frames, fpos: -1} }

// Frame starts a new frame (one scheduler step / one generated operation).
func (t *Tape) Frame() {
	if t.replay {
		t.fpos++
		t.fcursor = 0
	}
	t.marks = append(t.marks, len(t.vals))
}

// Exhausted is true in replay mode once all recorded frames were consumed.
func (t *Tape) Exhausted() bool { return t.replay && t.fpos >= len(t.frames) }

// Intn draws a value in [0,n).
func (t *Tape) Intn(n int) int {
	if n <= 0 {
		n = 1
	}
	var v int64
	if t.replay {
		if t.fpos >= 0 && t.fpos < len(t.frames) && t.fcursor < len(t.frames[t.fpos]) {
			v = t.frames[t.fpos][t.fcursor]
		}
		t.fcursor++
		if v < 0 {
			v = 0
		}
		v = v % int64(n)
	} else {
		v = int64(t.rng.Intn(n))
	}
	t.vals = append(t.vals, v)
	return int(v)
}

func (t *Tape) Bool(pPercent int) bool { return t.Intn(100) < pPercent }

// Pick returns an index weighted by w.
func (t *Tape) Pick(w []int) int {
	tot := 0
	for _, x := range w {
		tot += x
	}
	if tot <= 0 {
		return 0
	}
	r := t.Intn(tot)
	for i, x := range w {
		if r < x {
			return i
		}
		r -= x
	}
	return len(w) - 1
}

// Frames returns the recorded tape as frames.
func (t *Tape) Frames() [][]int64 {
	out := make([][]int64, 0, len(t.marks))
	for i, m := range t.marks {
		end := len(t.vals)
		if i+1 < len(t.marks) {
			end = t.marks[i+1]
		}
		fr := make([]int64, end-m)
		copy(fr, t.vals[m:end])
		out = append(out, fr)
	}
	return out
}

// ---------------------------------------------------------------------------------------
// Sim: scheduler + clock tick + fault plan. One per run; the driver reaches it through the
// package variable S (a run is single-bubble, runs are sequential inside one process).

type FaultKind int

const (
	FaultNone FaultKind = iota
	FaultStmtErr
	FaultCommitErr
	FaultCancel
	FaultConnLoss
	FaultStall
	// FaultCancelAfter: the statement at event k executes, THEN the client cancels and the
	// transaction watcher of database/sql gets to roll back before the handler continues
	// (the window "cancelled between the last statement and the commit")
	FaultCancelAfter
	// FaultCancelAtCommit: the client cancels at the first COMMIT at or after event k, after
	// database/sql's own context check: the commit goes through, whatever runs after it (commit
	// hooks, the handler's epilogue) runs under a cancelled context
	FaultCancelAtCommit
)

func (k FaultKind) String() string {
	return [...]string{"none", "sql_stmt_err", "commit_err", "ctx_cancel", "conn_loss", "stall", "ctx_cancel_after_stmt", "ctx_cancel_at_commit"}[k]
}

var errInjected = errors.New("simulated storage failure")
var errConnLost = errors.New("simulated connection loss")

type taskKey struct{}

type Sim struct {
	mu               sync.Mutex
	parked           map[string]chan struct{}
	on               bool // cooperative scheduling on (concurrent profiles)
	tick             time.Duration
	nticks           atomic.Int64
	spun             atomic.Bool
	total, maxWindow atomic.Int64
	// spinAfter: driver events per counting window before the tick escalates (0: default)
	spinAfter int64
	curTick   atomic.Int64
	sleepin   atomic.Int32

	// fault plan: fires at the k-th driver event counted since arm (1-based)
	evt                int
	cancelAfterPending bool
	faultKind          FaultKind
	faultAt            int
	faultFired         bool
	stallFor           time.Duration
	connLost           bool
	cancelOp           context.CancelFunc
	openTx             int // number of real transactions currently open

	goTask sync.Map // goid -> task id

	Stats map[string]int
	Log   []string // schedule decisions (macro steps) for determinism checks

	RecordEvents bool
	EvtLog       []byte

	commitSeq  int
	taskCommit map[string]int // task id -> sequence number of its last successful commit
}

var S *Sim

func NewSim(tick time.Duration) *Sim {
	return &Sim{parked: map[string]chan struct{}{}, tick: tick, Stats: map[string]int{}}
}

func (s *Sim) stat(k string) {
	s.mu.Lock()
	s.Stats[k]++
	s.mu.Unlock()
}

// Arm sets a fault to fire at driver event k (1-based, counted from now).
func (s *Sim) Arm(kind FaultKind, k int, cancel context.CancelFunc) {
	s.mu.Lock()
	s.evt = 0
	s.faultKind = kind
	s.faultAt = k
	s.faultFired = false
	s.cancelOp = cancel
	s.mu.Unlock()
}

// Fired reports whether the armed fault has fired.
func (s *Sim) Fired() bool {
	s.mu.Lock()
	defer s.mu.Unlock()
	return s.faultFired
}

// Disarm clears the fault plan and returns (events counted, fired).
func (s *Sim) Disarm() (int, bool) {
	s.mu.Lock()
	defer s.mu.Unlock()
	n, f := s.evt, s.faultFired
	s.faultKind = FaultNone
	s.faultAt = 0
	s.cancelOp = nil
	return n, f
}

func (s *Sim) ResetEvents() { s.mu.Lock(); s.evt = 0; s.mu.Unlock() }
func (s *Sim) Events() int  { s.mu.Lock(); defer s.mu.Unlock(); return s.evt }

// event is called by the driver for every countable event; it returns the fault kind to apply.
// kind: 'b' begin, 's' statement, 'c' commit.
func (s *Sim) event(kind byte) FaultKind {
	s.mu.Lock()
	defer s.mu.Unlock()
	s.evt++
	if s.RecordEvents {
		s.EvtLog = append(s.EvtLog, kind)
	}
	if s.connLost {
		return FaultConnLoss
	}
	if s.faultKind == FaultStall {
		// a stall is applied at the first transaction begin at or after event k: stalling
		// between a handler's "now" and its select over timers would hand the outcome to
		// Go's randomised select (two timers ready at once) and break replay
		if !s.faultFired && s.evt >= s.faultAt && kind == 'b' {
			s.faultFired = true
			s.Stats["fired_"+FaultStall.String()]++
			return FaultStall
		}
		return FaultNone
	}
	if s.faultKind == FaultCancelAtCommit {
		if !s.faultFired && s.evt >= s.faultAt && kind == 'c' {
			s.faultFired = true
			s.Stats["fired_"+FaultCancelAtCommit.String()]++
			return FaultCancel
		}
		return FaultNone
	}
	if s.faultKind == FaultCommitErr {
		// a commit error is applied at the first commit at or after event k
		if !s.faultFired && s.evt >= s.faultAt && kind == 'c' {
			s.faultFired = true
			s.Stats["fired_"+FaultCommitErr.String()]++
			return FaultCommitErr
		}
		return FaultNone
	}
	if s.faultKind != FaultNone && !s.faultFired && s.evt == s.faultAt {
		s.faultFired = true
		k := s.faultKind
		if k == FaultConnLoss {
			s.connLost = true
		}
		s.Stats["fired_"+k.String()]++
		return k
	}
	return FaultNone
}

// ---- task identity -------------------------------------------------------------------

func goids() (self, parent int64) {
	buf := make([]byte, 8192)
	n := runtime.Stack(buf, false)
	st := string(buf[:n])
	fmt.Sscanf(st, "goroutine %d ", &self)
	if i := strings.LastIndex(st, " in goroutine "); i >= 0 {
		fmt.Sscanf(st[i:], " in goroutine %d", &parent)
	}
	return
}

func (s *Sim) taskOfGoroutine() string {
	self, parent := goids()
	if v, ok := s.goTask.Load(self); ok {
		return v.(string)
	}
	if v, ok := s.goTask.Load(parent); ok {
		s.goTask.Store(self, v)
		return v.(string)
	}
	return ""
}

func role() string {
	pcs := make([]uintptr, 64)
	n := runtime.Callers(3, pcs)
	fr := runtime.CallersFrames(pcs[:n])
	outer, inner := "?", ""
	for {
		f, more := fr.Next()
		fn := f.Function
		if strings.Contains(fn, "go.6river.tech/mmmbbb/") && !strings.Contains(fn, "/ent.") && !strings.Contains(fn, "/ent/") && !strings.HasSuffix(fn, ".verifYield") {
			i := strings.LastIndex(fn, "/")
			if inner == "" {
				inner = fn[i+1:]
			}
			outer = fn[i+1:]
		}
		if !more {
			break
		}
	}
	return outer + "<" + inner
}

// YieldG parks a goroutine that has no context (micro yields before locks).
func (s *Sim) YieldG(point string) {
	if s == nil || !s.on {
		return
	}
	id := s.taskOfGoroutine()
	if id == "" {
		return
	}
	s.park(id, point, "")
}

// Yield parks the calling goroutine if it belongs to a task (macro yields).
func (s *Sim) Yield(ctx context.Context, point string) {
	if s == nil || !s.on {
		return
	}
	id, _ := ctx.Value(taskKey{}).(string)
	if id == "" {
		id = s.taskOfGoroutine()
		if id == "" {
			return
		}
	} else {
		self, _ := goids()
		s.goTask.Store(self, id)
	}
	s.park(id, point, "")
}

// YieldTag is Yield with a disambiguating tag (symmetric goroutines of one task).
func (s *Sim) YieldTag(ctx context.Context, point, tag string) {
	if s == nil || !s.on {
		return
	}
	id, _ := ctx.Value(taskKey{}).(string)
	if id == "" {
		id = s.taskOfGoroutine()
		if id == "" {
			return
		}
	}
	s.park(id, point, tag)
}

func (s *Sim) park(id, point, tag string) {
	if point == "read" {
		s.stat("yield_after_autocommit_read")
	}
	ch := make(chan struct{})
	key := id + "|" + role() + "@" + point
	if tag != "" {
		key += "#" + tag
	}
	s.mu.Lock()
	if _, dup := s.parked[key]; dup {
		// symmetric goroutines: disambiguate by arrival count (still deterministic because
		// only one goroutine runs at a time)
		for i := 2; ; i++ {
			k2 := fmt.Sprintf("%s~%d", key, i)
			if _, d := s.parked[k2]; !d {
				key = k2
				break
			}
		}
	}
	s.parked[key] = ch
	if schedLog {
		s.Log = append(s.Log, "    park "+key)
	}
	s.mu.Unlock()
	<-ch
}

// spinAfter: driver events per run after which the SQL latency tick starts doubling (every
// spinStep further events, up to one second). No run on the unchanged tree comes near it (stat
// max_driver_events_per_run); it exists for code that polls storage in a loop without ever
// blocking: under a virtual clock such a loop would starve time itself, with the escalation
// the clock moves on, the loop's own deadline arrives and the oracles see what it returns.
const (
	spinAfterDefault = 200000
	spinStep         = 512
)

// StepBegin starts a new counting window for the escalation (engines that work in steps call
// it per step and use a smaller threshold, see Sim.spinAfter).
func (s *Sim) StepBegin() {
	if n := s.nticks.Swap(0); n > s.maxWindow.Load() {
		s.maxWindow.Store(n)
	}
	s.curTick.Store(0)
}

func (s *Sim) doTick() {
	if s == nil || s.tick <= 0 {
		return
	}
	d := s.tick
	s.total.Add(1)
	after := s.spinAfter
	if after == 0 {
		after = spinAfterDefault
	}
	if n := s.nticks.Add(1); n > after {
		shift := (n - after) / spinStep
		if shift > 40 {
			shift = 40
		}
		if d <<= shift; d > time.Second || d <= 0 {
			d = time.Second
		}
		s.spun.Store(true)
		s.curTick.Store(int64(d))
	}
	s.sleepin.Add(1)
	time.Sleep(d)
	s.sleepin.Add(-1)
}

// Ticks reports the number of driver events of this run and whether the tick was escalated.
func (s *Sim) Ticks() (total, maxWindow int64, spun bool) {
	s.StepBegin()
	return s.total.Load(), s.maxWindow.Load(), s.spun.Load()
}

// Settle waits until every other goroutine in the bubble is durably blocked and no task is
// inside a SQL latency tick.
func (s *Sim) Settle() {
	for {
		synctest.Wait()
		if s.sleepin.Load() == 0 {
			return
		}
		if d := time.Duration(s.curTick.Load()); d > s.tick {
			time.Sleep(d)
		} else {
			time.Sleep(s.tick)
		}
	}
}

func (s *Sim) drainMicro() {
	for {
		s.mu.Lock()
		var best string
		for k := range s.parked {
			if strings.Contains(k, "@lock") && (best == "" || k < best) {
				best = k
			}
		}
		if best == "" {
			s.mu.Unlock()
			return
		}
		ch := s.parked[best]
		delete(s.parked, best)
		s.mu.Unlock()
		close(ch)
		s.Settle()
	}
}

// ParkedKeys returns the sorted macro-parked keys (after draining micro yields).
func (s *Sim) ParkedKeys() []string {
	s.drainMicro()
	s.mu.Lock()
	defer s.mu.Unlock()
	keys := make([]string, 0, len(s.parked))
	for k := range s.parked {
		keys = append(keys, k)
	}
	sort.Strings(keys)
	if schedLog {
		s.Log = append(s.Log, fmt.Sprintf("  keys %v", keys))
	}
	return keys
}

var schedLog = os.Getenv("VERIF_SCHEDLOG") != ""

// Resume releases the parked goroutine with the given key and settles.
func (s *Sim) Resume(key string) {
	s.mu.Lock()
	ch, ok := s.parked[key]
	if ok {
		delete(s.parked, key)
		s.Log = append(s.Log, fmt.Sprintf("%d %s", time.Since(epoch).Nanoseconds(), key))
	}
	s.mu.Unlock()
	if ok {
		close(ch)
		s.Settle()
		s.drainMicro()
	}
}

// ReleaseAll turns scheduling off and releases everything parked (end of run).
func (s *Sim) ReleaseAll() {
	s.mu.Lock()
	s.on = false
	for k, ch := range s.parked {
		close(ch)
		delete(s.parked, k)
	}
	s.mu.Unlock()
}

var epoch = time.Date(2000, 1, 1, 0, 0, 0, 0, time.UTC)

// Spawn starts a task goroutine which parks at "start" before running f.
func (s *Sim) Spawn(ctx context.Context, id string, f func(ctx context.Context)) (context.Context, context.CancelFunc) {
	cctx, cancel := context.WithCancel(context.WithValue(ctx, taskKey{}, id))
	go func() {
		s.Yield(cctx, "start")
		f(cctx)
	}()
	return cctx, cancel
}

// ---------------------------------------------------------------------------------------
// Wrapped SQLite driver.

type yDriver struct{ inner driver.Driver }
type yConn struct {
	driver.Conn
	inTx bool
}
type yTx struct {
	driver.Tx
	ctx context.Context
	c   *yConn
}

func (d *yDriver) Open(name string) (driver.Conn, error) {
	if S != nil && S.connLost {
		return nil, errConnLost
	}
	c, err := d.inner.Open(name)
	if err != nil {
		return nil, err
	}
	return &yConn{Conn: c}, nil
}

// BeginMark records when the request whose context carries it last began a transaction:
// whatever that request returns from its last transaction was read after that instant.
type BeginMark struct {
	Last time.Time
	N    int
}

type beginMarkKey struct{}

func WithBeginMark(ctx context.Context) (context.Context, *BeginMark) {
	m := &BeginMark{}
	return context.WithValue(ctx, beginMarkKey{}, m), m
}

func (c *yConn) BeginTx(ctx context.Context, opts driver.TxOptions) (driver.Tx, error) {
	s := S
	if m, ok := ctx.Value(beginMarkKey{}).(*BeginMark); ok {
		m.Last, m.N = time.Now(), m.N+1
	}
	if s != nil {
		s.Yield(ctx, "begin")
		switch s.event('b') {
		case FaultStmtErr, FaultCommitErr:
			return nil, errInjected
		case FaultConnLoss:
			return nil, errConnLost
		case FaultCancel:
			if s.cancelOp != nil {
				s.cancelOp()
			}
		case FaultStall:
			time.Sleep(s.stallFor)
		}
		if err := ctx.Err(); err != nil {
			return nil, err
		}
		// ent asks for LevelSerializable on some paths; sqlite3 driver rejects non-default
		// isolation levels only for read-only; pass through.
	}
	tx, err := c.Conn.(driver.ConnBeginTx).BeginTx(ctx, opts)
	if err != nil {
		return nil, err
	}
	c.inTx = true
	if s != nil {
		s.mu.Lock()
		s.openTx++
		s.mu.Unlock()
	}
	return &yTx{tx, ctx, c}, nil
}

func (t *yTx) done() {
	t.c.inTx = false
	if s := S; s != nil {
		s.mu.Lock()
		s.openTx--
		s.mu.Unlock()
	}
}

func (t *yTx) Commit() error {
	s := S
	if s != nil {
		switch s.event('c') {
		case FaultStmtErr, FaultCommitErr:
			_ = t.Tx.Rollback()
			t.done()
			return errInjected
		case FaultConnLoss:
			_ = t.Tx.Rollback()
			t.done()
			return errConnLost
		case FaultCancel:
			if s.cancelOp != nil {
				s.cancelOp()
			}
			// database/sql checks the context itself before calling us; a cancel landing
			// here is after that check, so the commit goes through (a legal outcome).
		case FaultStall:
			time.Sleep(s.stallFor)
		}
	}
	err := t.Tx.Commit()
	t.done()
	if s != nil {
		if err == nil {
			s.noteCommit(t.ctx)
		}
		s.Yield(t.ctx, "committed")
	}
	return err
}

func (t *yTx) Rollback() error {
	err := t.Tx.Rollback()
	t.done()
	return err
}

func (c *yConn) pre(ctx context.Context) error {
	s := S
	if s == nil {
		return nil
	}
	if c.inTx {
		s.doTick()
	} else {
		s.Yield(ctx, "stmt")
		s.doTick()
	}
	switch s.event('s') {
	case FaultStmtErr, FaultCommitErr:
		return errInjected
	case FaultConnLoss:
		return errConnLost
	case FaultCancel:
		if s.cancelOp != nil {
			s.cancelOp()
		}
		if err := ctx.Err(); err != nil {
			return err
		}
	case FaultStall:
		time.Sleep(s.stallFor)
	case FaultCancelAfter:
		s.mu.Lock()
		s.cancelAfterPending = true
		s.mu.Unlock()
	}
	return nil
}

// AfterEntOp is called by the harness' ent interceptor / hook when an ent query or mutation
// has returned to the caller (outside database/sql's statement lock): a pending "cancel after
// this statement" is applied here: cancel, then let the rest of the bubble (the transaction's
// context watcher, which rolls back) run before the handler continues.
func (s *Sim) AfterEntOp() {
	s.mu.Lock()
	p := s.cancelAfterPending
	s.cancelAfterPending = false
	c := s.cancelOp
	s.mu.Unlock()
	if p && c != nil {
		c()
		time.Sleep(time.Microsecond)
	}
}

func (c *yConn) ExecContext(ctx context.Context, q string, args []driver.NamedValue) (driver.Result, error) {
	if err := c.pre(ctx); err != nil {
		return nil, err
	}
	return c.Conn.(driver.ExecerContext).ExecContext(ctx, q, args)
}

func (c *yConn) QueryContext(ctx context.Context, q string, args []driver.NamedValue) (driver.Rows, error) {
	if err := c.pre(ctx); err != nil {
		return nil, err
	}
	return c.Conn.(driver.QueryerContext).QueryContext(ctx, q, args)
}

func (c *yConn) Ping(ctx context.Context) error {
	if p, ok := c.Conn.(driver.Pinger); ok {
		return p.Ping(ctx)
	}
	return nil
}

func (c *yConn) ResetSession(ctx context.Context) error {
	if r, ok := c.Conn.(driver.SessionResetter); ok {
		return r.ResetSession(ctx)
	}
	return nil
}

func (c *yConn) IsValid() bool {
	if v, ok := c.Conn.(driver.Validator); ok {
		return v.IsValid()
	}
	return true
}

func init() { sql.Register("simsqlite", &yDriver{&sqlite3.SQLiteDriver{}}) }

// RunTaskFirst runs f as a task under the cooperative scheduler with the fixed policy
// "always resume the first parked key" until f has returned and nothing is parked. Used by
// sequential profiles for the few operations that spawn goroutines (streams), so that they
// stay deterministic. maxSteps bounds the loop; returns false if it was exceeded.
func (s *Sim) RunTaskFirst(ctx context.Context, id string, f func(ctx context.Context), maxSteps int) bool {
	was := s.on
	s.on = true
	done := make(chan struct{})
	s.Spawn(ctx, id, func(c context.Context) {
		defer close(done)
		f(c)
	})
	s.Settle()
	ok := false
	for i := 0; i < maxSteps; i++ {
		keys := s.ParkedKeys()
		if len(keys) == 0 {
			select {
			case <-done:
				ok = true
			default:
				// blocked natively on a timer: let virtual time pass
				time.Sleep(time.Second)
				s.Settle()
				continue
			}
			break
		}
		s.Resume(keys[0])
	}
	s.mu.Lock()
	s.on = was
	for k, ch := range s.parked {
		close(ch)
		delete(s.parked, k)
	}
	s.mu.Unlock()
	s.Settle()
	return ok
}

func (s *Sim) noteCommit(ctx context.Context) {
	id, _ := ctx.Value(taskKey{}).(string)
	if id == "" {
		id = s.taskOfGoroutine()
	}
	s.mu.Lock()
	s.commitSeq++
	if s.taskCommit == nil {
		s.taskCommit = map[string]int{}
	}
	s.taskCommit[id] = s.commitSeq
	s.mu.Unlock()
}

// TaskCommit returns the global sequence number of the task's last successful commit: the
// linearisation point of single-transaction operations (and of a pull: its delivering commit).
func (s *Sim) TaskCommit(id string) int {
	s.mu.Lock()
	defer s.mu.Unlock()
	return s.taskCommit[id]
}

// YieldGM is a macro yield (a tape choice) for goroutines identified only by goroutine id.
func (s *Sim) YieldGM(point string) {
	if s == nil || !s.on {
		return
	}
	id := s.taskOfGoroutine()
	if id == "" {
		return
	}
	s.park(id, point, "")
}
